import CfdpVerif.Props.C18
import CfdpVerif.Model.Dest
import CfdpVerif.Lemmas.Monad
import CfdpVerif.Lemmas.TrackerGrid
/-!
# C06 — NAKs request exactly what is missing

The receiver's knowledge of what is missing *is* its lost-segment tracker, whose listing denotes
exactly the set of bytes added and not yet removed (`Props/C18`).  Proved here, for every tracker
content, header configuration and maximum packet length:

* the NAK sequence of the deferred procedure requests, taken together and in order, exactly the
  tracker's ranges — preceded by the metadata request `(0,0)` iff Metadata is missing — nothing else
  and nothing twice (`C06_nak_sequence_exact`);
* every NAK PDU of the sequence has scope `(0, EOF file size)`, carries between 1 and the per-PDU
  maximum of requests, and its encoded length respects the maximum packet length
  (`C06_nak_sequence_pdus`, `C06_nak_len`);
* nothing missing ⇒ no NAK, and the transfer proceeds to completion (`C06_nothing_missing`);
* the immediate NAK for a gap requests exactly the gap `[last_end, offset)`, with a scope that
  encloses it (`C06_immediate_nak`).
* the link "tracker = bytes no PDU delivered" for EVERY arrival history over the tiles of a segment grid
  — any order, losses, duplicates, the EOF anywhere after them, retransmissions in any order —
  (`C06_tracker_exact_all_histories`, `C06_tracker_exact_after_eof`; invariant `TInv` of
  `Lemmas/TrackerGrid.lean`), tied to the handler method by method
  (`C06_lost_segment_handling_is_tile`, `C06_feed_is_tiles`, `C06_no_error_eof_tail`,
  `C06_deferred_first_issue`), hence: the deferred NAK sequence requests exactly the missing bytes and is
  empty iff nothing is missing (`C06_nak_requests_exactly_missing`), the immediate NAK only bytes nobody
  delivered, inside the known extent (`C06_immediate_nak_only_missing`).
Not covered by these theorems: Metadata arriving late (the listing is then seeded by
`_handle_fd_without_previous_metadata`; composed for one lost Metadata PDU in `Props/C03`), file data the
filestore refused (the listing is updated before the write), non-grid segmentations (a removal that
straddles a range is refused and swallowed: `C18_remove_straddle_refused`).
-/
set_option linter.unusedSimpArgs false
set_option linter.unusedVariables false

namespace Cfdp.C06

open Cfdp Cfdp.Dest

/-- segment requests of a NAK PDU -/
def reqsOf : Pdu → List (Nat × Nat)
  | .nak _ _ _ r => r
  | _ => []

def flat (l : List Pdu) : List (Nat × Nat) := (l.map reqsOf).flatten

@[simp] theorem flat_append (a b : List Pdu) : flat (a ++ b) = flat a ++ flat b := by
  simp [flat]

/-- a NAK PDU of the deferred procedure: towards the sender, scope `(0, eos)`, `1..m` requests -/
def GoodNak (conf : Hdr) (eos m : Nat) (p : Pdu) : Prop :=
  ∃ r, p = .nak { conf with dir := .toSend } 0 eos r ∧ 1 ≤ r.length ∧ r.length ≤ m

theorem splitReqs_spec (conf : Hdr) (eos m : Nat) (hm : 1 ≤ m) :
    ∀ (reqs cur : List (Nat × Nat)) (out : List Pdu), cur.length ≤ m →
      (flat (splitReqs conf eos m reqs cur out).2 ++ (splitReqs conf eos m reqs cur out).1 =
        flat out ++ cur ++ reqs) ∧
      (splitReqs conf eos m reqs cur out).1.length ≤ m ∧
      (reqs ≠ [] → (splitReqs conf eos m reqs cur out).1 ≠ []) ∧
      (∀ p ∈ (splitReqs conf eos m reqs cur out).2, p ∈ out ∨ GoodNak conf eos m p) := by
  intro reqs
  induction reqs with
  | nil =>
    intro cur out h
    refine ⟨by simp [splitReqs], by simpa [splitReqs] using h, by simp, fun p hp => Or.inl ?_⟩
    simpa [splitReqs] using hp
  | cons r rest ih =>
    intro cur out h
    unfold splitReqs
    by_cases hc : cur.length ≥ m
    · simp only [hc, if_true]
      have := ih [r] (out ++ [mkNak conf 0 eos cur]) (by simp; omega)
      obtain ⟨h1, h2, h3, h4⟩ := this
      refine ⟨?_, h2, ?_, ?_⟩
      · rw [h1]; simp [flat, reqsOf, mkNak]
      · intro _
        by_cases hr : rest = []
        · subst hr; simp [splitReqs]
        · exact h3 hr
      · intro p hp
        rcases h4 p hp with h | h
        · simp at h
          rcases h with h | h
          · exact Or.inl h
          · right; exact ⟨cur, by rw [h]; rfl, by omega, by omega⟩
        · exact Or.inr h
    · simp only [hc, if_false]
      have := ih (cur ++ [r]) out (by simp; omega)
      obtain ⟨h1, h2, h3, h4⟩ := this
      refine ⟨?_, h2, ?_, h4⟩
      · rw [h1]; simp
      · intro _
        by_cases hr : rest = []
        · subst hr; simp [splitReqs]
        · exact h3 hr

/-- **Exactness of the deferred NAK sequence.**  The segment requests of the NAK PDUs of one
(re-)issue, concatenated in order, are exactly: the metadata request `(0,0)` iff Metadata is
missing, followed by the tracker's ranges in ascending order — each exactly once. -/
theorem C06_nak_sequence_exact (conf : Hdr) (fse m : Nat) (hm : 1 ≤ m) (mm : Bool) (trk : Tracker.T) :
    flat (nakSequence conf fse m mm trk) = (if mm then [(0, 0)] else []) ++ trk := by
  unfold nakSequence
  have hinit : (if mm then [((0 : Nat), (0 : Nat))] else []).length ≤ m := by
    cases mm <;> simp <;> omega
  obtain ⟨h1, _, _, _⟩ := splitReqs_spec conf fse m hm trk (if mm then [(0, 0)] else []) [] hinit
  simp only at h1 ⊢
  by_cases hr : (splitReqs conf fse m trk (if mm = true then [(0, 0)] else []) []).1.length > 0
  · simp only [hr, if_true, flat_append]
    have : flat [mkNak conf 0 fse (splitReqs conf fse m trk (if mm = true then [(0, 0)] else []) []).1] =
        (splitReqs conf fse m trk (if mm = true then [(0, 0)] else []) []).1 := by
      simp [flat, reqsOf, mkNak]
    rw [this, h1]; simp [flat]
  · have hnil : (splitReqs conf fse m trk (if mm = true then [(0, 0)] else []) []).1 = [] := by
      cases h : (splitReqs conf fse m trk (if mm = true then [(0, 0)] else []) []).1 with
      | nil => rfl
      | cons a b => rw [h] at hr; simp at hr
    simp only [hr, if_false, List.append_nil]
    rw [hnil, List.append_nil] at h1
    rw [h1]; simp [flat]

/-- every PDU of the sequence: a NAK towards the sender with scope `(0, EOF file size)` and between
one and `m` requests -/
theorem C06_nak_sequence_pdus (conf : Hdr) (fse m : Nat) (hm : 1 ≤ m) (mm : Bool) (trk : Tracker.T) :
    ∀ p ∈ nakSequence conf fse m mm trk, GoodNak conf fse m p := by
  unfold nakSequence
  have hinit : (if mm then [((0 : Nat), (0 : Nat))] else []).length ≤ m := by
    cases mm <;> simp <;> omega
  obtain ⟨_, h2, _, h4⟩ := splitReqs_spec conf fse m hm trk (if mm then [(0, 0)] else []) [] hinit
  intro p hp
  simp only at hp
  rcases List.mem_append.mp hp with h | h
  · rcases h4 p h with h' | h'
    · simp at h'
    · exact h'
  · by_cases hl : (splitReqs conf fse m trk (if mm = true then [(0, 0)] else []) []).1.length > 0
    · rw [if_pos hl] at h
      simp at h
      exact ⟨_, by rw [h]; rfl, by omega, h2⟩
    · rw [if_neg hl] at h
      simp at h

/-- **Length bound.**  With `m` the per-PDU maximum computed from the maximum packet length
(`get_max_seg_reqs_for_max_packet_size_and_pdu_cfg`), every NAK PDU of the deferred sequence has an
encoded length of at most the maximum packet length. -/
theorem C06_nak_len (conf : Hdr) (fse m maxPkt : Nat) (p : Pdu)
    (hmax : maxSegReqs maxPkt conf = some m) (hp : GoodNak conf fse m p) : p.packetLen ≤ maxPkt := by
  obtain ⟨r, rfl, _, hr⟩ := hp
  unfold maxSegReqs at hmax
  simp only at hmax
  split at hmax
  · simp at hmax
  · rename_i hb
    simp at hmax
    subst hmax
    simp only [Pdu.packetLen, Hdr.len, Hdr.fss, Hdr.crcLen] at *
    have hf : 0 < 2 * (if conf.large = true then 8 else 4) := by split <;> omega
    have := Nat.div_mul_le_self (maxPkt - (4 + conf.src.width + conf.dst.width + conf.seq.width + 1 +
      (if conf.crc = true then 2 else 0) + 2 * (if conf.large = true then 8 else 4)))
      (2 * (if conf.large = true then 8 else 4))
    have hmul : r.length * (2 * (if conf.large = true then 8 else 4)) ≤
        (maxPkt - (4 + conf.src.width + conf.dst.width + conf.seq.width + 1 +
          (if conf.crc = true then 2 else 0) + 2 * (if conf.large = true then 8 else 4))) /
          (2 * (if conf.large = true then 8 else 4)) * (2 * (if conf.large = true then 8 else 4)) :=
      Nat.mul_le_mul_right _ hr
    omega

/-- **Nothing missing ⇒ no NAK, proceed to completion.**  With an empty tracker and the Metadata
present, the deferred procedure queues nothing, verifies the checksum and moves to transfer
completion (the queue is exactly as before). -/
theorem C06_nothing_missing (env : Env) (d : DestSt) (rc : RemoteCfg) (fse : Nat)
    (ha : d.p.deferredActive = true) (hnc : d.p.canceled = false)
    (hrc : d.p.remoteCfg = some rc) (hf : d.p.fileSizeEof = some fse)
    (htrk : d.p.trk = []) (hmd : d.p.metadataMissing = false) (hnull : d.p.cksType = 15)
    (hb : d.state = .busy) :
    deferredLostSegmentHandling env d =
      .ok () { d with step := .TRANSFER_COMPLETION,
                      p := { d.p with deferredActive := false,
                                      fin := { d.p.fin with deliv := dcComplete, cond := ccNoError } } } := by
  msimp [deferredLostSegmentHandling, getP, ha, hnc, hrc, hf, htrk, hmd, checksumVerify, hnull, markComplete, modP, hb]

/-- **Immediate NAK.**  A File Data PDU beyond the end of the last in-order segment makes the gap
`[last_end, offset)` lost; in immediate mode exactly that gap is requested at once, in a NAK whose
scope `(0, offset + length)` encloses it (`last_end < offset ≤ offset + length`). -/
theorem C06_immediate_nak (d : DestSt) (rc : RemoteCfg) (off len : Nat)
    (hrc : d.p.remoteCfg = some rc) (himm : rc.imm = true) (hgt : off > d.p.lastEnd) (hlen : 0 < len) :
    ∃ d', lostSegmentHandling off len d = .ok () d' ∧
      d'.queue = d.queue ++ [mkNak d.p.conf 0 (off + len) [(d.p.lastEnd, off)]] ∧
      d'.p.trk = Tracker.add d.p.trk (d.p.lastEnd, off) ∧ d.p.lastEnd < off ∧ off ≤ off + len := by
  have hl : ¬ off + len ≤ off := by omega
  apply Exists.intro
  refine ⟨?_, ?_, ?_, hgt, by omega⟩
  · msimp [lostSegmentHandling, getP, hgt, hrc, himm, modP, addPacket, Nat.le_of_lt hgt, hl]
    rfl
  · simp
  · simp

/-- a File Data PDU that does not lie beyond the last in-order segment requests nothing -/
theorem C06_no_nak_without_gap (d : DestSt) (off len : Nat) (hle : off ≤ d.p.lastEnd) :
    (stateOf (lostSegmentHandling off len d)).queue = d.queue := by
  have hng : ¬ off > d.p.lastEnd := by omega
  unfold lostSegmentHandling
  cases hrm : Tracker.remove d.p.trk off (off + len) <;>
    msimp [getP, hng, modP, hrm] <;> (repeat' split) <;> simp [stateOf, hrm]

section EveryHistory
open Cfdp.Tracker

/-! ## The tracker is exactly what is missing — for every arrival history on a segment grid -/

/-- **Every history, before the EOF.**  From a new transaction, after the File Data PDUs of any
history over the tiles of the grid — any order, any tile any number of times, any tile never —, the
tracker lists exactly the bytes below the in-order marker (the largest end seen) that no PDU delivered:
nothing that was received, nothing beyond what is known of the file, and everything else. -/
theorem C06_tracker_exact_all_histories (seg size : Nat) (hs : 0 < seg) (h : List (Nat × Nat))
    (hT : ∀ q ∈ h, Tile seg size q.1 q.2) :
    let s := (⟨0, 0, []⟩ : TS).tiles h
    WF s.trk ∧ (∀ x, den s.trk x ↔ (x < s.le ∧ ¬ covered h x)) ∧ (∀ q ∈ h, q.2 ≤ s.le) ∧ s.le ≤ size := by
  have := (TInv.init seg size).tiles hs h hT
  simp only [List.nil_append] at this
  exact ⟨this.wf, this.exact, this.hle, this.leSize⟩

/-- **Every history, across the EOF.**  Tiles `h1` in any order with any losses and duplicates, the
EOF (No error) announcing the file's size, retransmitted tiles `h2` in any order: the tracker lists
exactly the bytes of `[0, size)` that no PDU of `h1 ++ h2` delivered.  With
`C06_nak_sequence_exact` these are exactly the bytes every (re-)issue of the deferred NAK sequence
requests; in particular the tracker is empty — and by `C06_nothing_missing` no NAK is sent and the
transfer proceeds to completion — exactly when every byte of the file has arrived. -/
theorem C06_tracker_exact_after_eof (seg size : Nat) (hs : 0 < seg) (h1 h2 : List (Nat × Nat))
    (hT1 : ∀ q ∈ h1, Tile seg size q.1 q.2) (hT2 : ∀ q ∈ h2, Tile seg size q.1 q.2) :
    let s := (((⟨0, 0, []⟩ : TS).tiles h1).eof size).tiles h2
    WF s.trk ∧ (∀ x, den s.trk x ↔ (x < size ∧ ¬ covered (h1 ++ h2) x)) ∧
      (s.trk = [] ↔ ∀ x, x < size → covered (h1 ++ h2) x) := by
  have i1 := (TInv.init seg size).tiles hs h1 hT1
  simp only [List.nil_append] at i1
  have i2 := (i1.eof).tiles hs h2 hT2
  have hle : ((((⟨0, 0, []⟩ : TS).tiles h1).eof size).tiles h2).le = size :=
    TS.tiles_marker_of_full h2 hT2 _ rfl
  refine ⟨i2.wf, fun x => by rw [i2.exact, hle], ?_⟩
  constructor
  · intro he x hx
    have := (i2.exact x).2
    rw [he, hle] at this
    exact Classical.byContradiction fun hc => by simpa using this ⟨hx, hc⟩
  · intro hall
    cases htrk : ((((⟨0, 0, []⟩ : TS).tiles h1).eof size).tiles h2).trk with
    | nil => rfl
    | cons r t =>
      have hw := i2.wf
      rw [htrk] at hw
      have hr : den ((((⟨0, 0, []⟩ : TS).tiles h1).eof size).tiles h2).trk r.1 := by
        rw [htrk]; exact ⟨r, List.mem_cons_self, Nat.le_refl _, hw.2.1⟩
      have := (i2.exact r.1).1 hr
      rw [hle] at this
      exact absurd (hall r.1 this.1) this.2

/-! ### the handler performs exactly these steps -/

/-- the three tracker fields of the receiver's parameters -/
def tsOf (p : Params) : TS := ⟨p.lastStart, p.lastEnd, p.trk⟩

/-- **`_lost_segment_handling` is `TS.tile`.**  For every receiver state with a remote configuration
and every File Data PDU covering `[a, b)`, the method returns (it never raises: a refused removal is
swallowed), and its effect on (last start, last end, tracker) is `TS.tile`; nothing else of the
parameters that the tracker logic reads is touched. -/
theorem C06_lost_segment_handling_is_tile (d : DestSt) (rc : RemoteCfg) (a b : Nat) (hab : a ≤ b)
    (hrc : d.p.remoteCfg = some rc) :
    ∃ d', lostSegmentHandling a (b - a) d = .ok () d' ∧ tsOf d'.p = (tsOf d.p).tile a b ∧
      d'.p.remoteCfg = d.p.remoteCfg ∧ d'.p.fileSizeEof = d.p.fileSizeEof ∧ d'.p.progress = d.p.progress ∧
      d'.fs = d.fs := by
  have hb : a + (b - a) = b := by omega
  unfold lostSegmentHandling
  rw [hb]
  by_cases h1 : a > d.p.lastEnd
  · have h2 : a ≥ d.p.lastEnd := by omega
    have h3 : ¬ b ≤ a ∨ b ≤ a := by omega
    by_cases h4 : b ≤ a
    · cases hr : Tracker.remove (Tracker.add d.p.trk (d.p.lastEnd, a)) a b <;> cases himm : rc.imm <;>
        (apply Exists.intro; refine ⟨?_, ?_, ?_⟩
         · msimp [getP, modP, addPacket, h1, h2, h4, hrc, himm, hr]; rfl
         · simp [tsOf, TS.tile, h1, h2, h4, hr]
         · simp [hrc])
    · cases himm : rc.imm <;>
        (apply Exists.intro; refine ⟨?_, ?_, ?_⟩
         · msimp [getP, modP, addPacket, h1, h2, h4, hrc, himm]; rfl
         · simp [tsOf, TS.tile, h1, h2, h4]
         · simp [hrc])
  · by_cases h2 : a ≥ d.p.lastEnd
    · by_cases h4 : b ≤ a
      · cases hr : Tracker.remove d.p.trk a b <;>
          (apply Exists.intro; refine ⟨?_, ?_, ?_⟩
           · msimp [getP, modP, addPacket, h1, h2, h4, hrc, hr]; rfl
           · simp [tsOf, TS.tile, h1, h2, h4, hr]
           · simp [hrc])
      · apply Exists.intro; refine ⟨?_, ?_, ?_⟩
        · msimp [getP, modP, addPacket, h1, h2, h4, hrc]; rfl
        · simp [tsOf, TS.tile, h1, h2, h4]
        · simp [hrc]
    · by_cases h4 : b ≤ d.p.lastStart
      · cases hr : Tracker.remove d.p.trk a b <;>
          (apply Exists.intro; refine ⟨?_, ?_, ?_⟩
           · msimp [getP, modP, addPacket, h1, h2, h4, hrc, hr]; rfl
           · simp [tsOf, TS.tile, h1, h2, h4, hr]
           · simp [hrc])
      · apply Exists.intro; refine ⟨?_, ?_, ?_⟩
        · msimp [getP, modP, addPacket, h1, h2, h4, hrc]; rfl
        · simp [tsOf, TS.tile, h1, h2, h4]
        · simp [hrc]

/-- the File Data PDUs of a history handed to `_lost_segment_handling` one after the other -/
def feedLsh (d : DestSt) (h : List (Nat × Nat)) : DestSt :=
  h.foldl (fun d q => stateOf (lostSegmentHandling q.1 (q.2 - q.1) d)) d

theorem C06_feed_is_tiles (h : List (Nat × Nat)) (hab : ∀ q ∈ h, q.1 ≤ q.2) :
    ∀ (d : DestSt), d.p.remoteCfg ≠ none →
      tsOf (feedLsh d h).p = (tsOf d.p).tiles h ∧ (feedLsh d h).p.remoteCfg = d.p.remoteCfg ∧
      (feedLsh d h).p.progress = d.p.progress := by
  induction h with
  | nil => intro d _; exact ⟨rfl, rfl, rfl⟩
  | cons q h ih =>
    intro d hrc
    obtain ⟨rc, hrc'⟩ := Option.ne_none_iff_exists'.mp hrc
    obtain ⟨d', h1, h2, h3, -, h5, -⟩ := C06_lost_segment_handling_is_tile d rc q.1 q.2 (hab q List.mem_cons_self) hrc'
    have hs : stateOf (lostSegmentHandling q.1 (q.2 - q.1) d) = d' := by rw [h1]; rfl
    obtain ⟨i1, i2, i3⟩ := ih (fun r hr => hab r (List.mem_cons_of_mem _ hr)) d' (by rw [h3]; exact hrc)
    simp only [feedLsh, List.foldl_cons, hs, TS.tiles] at i1 i2 i3 ⊢
    exact ⟨by rw [i1, h2], by rw [i2, h3], by rw [i3, h5]⟩

/-- **The EOF at the handler** (acknowledged mode, progress not beyond the announced size):
`_handle_no_error_eof` makes the tail `[progress, size)` lost and goes on; the tracker is otherwise
untouched and nothing is declared. -/
theorem C06_no_error_eof_tail (env : Env) (d : DestSt) (fse : Nat) (hb : d.state = .busy)
    (hm : d.p.conf.mode = .ack) (hf : d.p.fileSizeEof = some fse) (hp : d.p.progress ≤ fse) :
    handleNoErrorEof env d = .ok true
      { d with p := { d.p with trk := if d.p.progress < fse then Tracker.add d.p.trk (d.p.progress, fse)
                                       else d.p.trk } } := by
  have h1 : ¬ d.p.progress > fse := by omega
  by_cases h2 : d.p.progress < fse
  · msimp [handleNoErrorEof, getP, hf, h1, h2, transmissionMode, hb, hm, modP, noErrorEofVerify]
  · msimp [handleNoErrorEof, getP, hf, h1, h2, transmissionMode, hb, hm, modP, noErrorEofVerify]
    rw [← hb, ← hf]

/-- the receiver after the first issue of the deferred NAK sequence -/
def afterFirstIssue (env : Env) (d : DestSt) (rc : RemoteCfg) (fse m : Nat) : DestSt :=
  let trk := Tracker.coalesce d.p.trk
  let naks := nakSequence d.p.conf fse m d.p.metadataMissing trk
  { d with step := if d.p.metadataMissing then .WAITING_FOR_METADATA else .WAITING_FOR_MISSING_DATA,
           queue := d.queue ++ naks, numReady := d.numReady + naks.length,
           p := { d.p with deferredActive := true, trk := trk, lastStart := fse, lastEnd := fse,
                           procTimer := some ⟨env.now, rc.nakMs⟩ } }

/-- **Start of the deferred procedure with something missing**: the listing is coalesced, the
in-order marker jumps to the end of the file, the NAK timer starts, and exactly the NAK sequence of the
coalesced listing is queued. -/
theorem C06_deferred_first_issue (env : Env) (d : DestSt) (rc : RemoteCfg) (fse m : Nat)
    (hnc : d.p.canceled = false) (hrc : d.p.remoteCfg = some rc) (hf : d.p.fileSizeEof = some fse)
    (hmiss : Tracker.coalesce d.p.trk ≠ [] ∨ d.p.metadataMissing = true) (hpt : d.p.procTimer = none)
    (hmax : maxSegReqs rc.maxPkt d.p.conf = some m) :
    startDeferredLostSegmentHandling env d = .ok () (afterFirstIssue env d rc fse m) := by
  have hne : ¬ ((Tracker.coalesce d.p.trk).length = 0 ∧ d.p.metadataMissing = false) := by
    rintro ⟨h1, h2⟩
    rcases hmiss with h | h
    · exact h (List.eq_nil_of_length_eq_zero h1)
    · rw [h] at h2; cases h2
  have hne2 : ¬ (Tracker.coalesce d.p.trk = [] ∧ d.p.metadataMissing = false) := by
    rintro ⟨h1, h2⟩; exact hne ⟨by rw [h1]; rfl, h2⟩
  msimp [startDeferredLostSegmentHandling, getP, hf, modP, deferredLostSegmentHandling, hnc, hrc, hne, hne2, hpt,
    hmax, addPackets, afterFirstIssue]

/-- the bytes a list of NAK PDUs asks for -/
def requested (naks : List Pdu) (x : Nat) : Prop := ∃ r ∈ flat naks, r.1 ≤ x ∧ x < r.2

/-- **The deferred NAK sequence requests exactly what is missing — every history.**  Tiles `h1` in
any order with any losses and duplicates, the EOF, retransmitted tiles `h2` in any order (none for the
first issue): the NAK PDUs issued from the tracker then reached request, taken together, exactly the
bytes of `[0, size)` that no PDU of the history delivered; every request is non-empty, the requests
ascend without overlap; and no NAK is issued iff nothing is missing. -/
theorem C06_nak_requests_exactly_missing (conf : Hdr) (seg size m : Nat) (hs : 0 < seg) (hm : 1 ≤ m)
    (h1 h2 : List (Nat × Nat))
    (hT1 : ∀ q ∈ h1, Tile seg size q.1 q.2) (hT2 : ∀ q ∈ h2, Tile seg size q.1 q.2) :
    let trk := ((((⟨0, 0, []⟩ : TS).tiles h1).eof size).tiles h2).trk
    let naks := nakSequence conf size m false trk
    (∀ x, requested naks x ↔ (x < size ∧ ¬ covered (h1 ++ h2) x)) ∧
    (∀ r ∈ flat naks, r.1 < r.2) ∧ List.Pairwise (fun p q : Nat × Nat => p.2 ≤ q.1) (flat naks) ∧
    (naks = [] ↔ ∀ x, x < size → covered (h1 ++ h2) x) := by
  intro trk naks
  obtain ⟨hw, hd, he⟩ := C06_tracker_exact_after_eof seg size hs h1 h2 hT1 hT2
  have hflat : flat naks = trk := by
    simpa using C06_nak_sequence_exact conf size m hm false trk
  obtain ⟨g1, g2⟩ := C18.C18_wf_means_ascending_nonempty hw
  refine ⟨fun x => ?_, by rw [hflat]; exact g1, by rw [hflat]; exact g2, ?_⟩
  · rw [← hd x]; simp only [requested, hflat, den]; rfl
  · rw [← he]
    constructor
    · intro hn
      have : trk = [] := by rw [← hflat, hn]; rfl
      exact this
    · intro ht
      show nakSequence conf size m false trk = []
      have : trk = [] := ht
      rw [this]; simp [nakSequence, splitReqs]

/-- **The immediate NAK requests only what is missing — every history.**  After any history `h` of
tiles, a tile `[a, b)` beyond the in-order marker `le` arrives: the gap `[le, a)` that the immediate NAK
requests (`C06_immediate_nak`) lies inside the extent known so far (`a < b ≤ size`, the NAK's scope is
`(0, b)`) and no PDU of the history delivered any byte of it. -/
theorem C06_immediate_nak_only_missing (seg size : Nat) (hs : 0 < seg) (h : List (Nat × Nat))
    (hT : ∀ q ∈ h, Tile seg size q.1 q.2) (a b : Nat) (hTab : Tile seg size a b)
    (hgap : ((⟨0, 0, []⟩ : TS).tiles h).le < a) :
    a < b ∧ b ≤ size ∧ ∀ x, ((⟨0, 0, []⟩ : TS).tiles h).le ≤ x → x < a → ¬ covered h x := by
  have i := (TInv.init seg size).tiles hs h hT
  simp only [List.nil_append] at i
  refine ⟨hTab.lt hs, hTab.le_size, fun x h1 _ ⟨q, hq, _, q2⟩ => ?_⟩
  have := i.hle q hq; omega

/-! ### non-vacuity: a 10-byte file in segments of 4; the last tile overtakes, the first arrives twice,
the middle one only as a retransmission after the EOF -/

example : Tile 4 10 0 4 ∧ Tile 4 10 4 8 ∧ Tile 4 10 8 10 := by
  refine ⟨⟨⟨0, rfl⟩, by omega, rfl⟩, ⟨⟨1, rfl⟩, by omega, rfl⟩, ⟨⟨2, rfl⟩, by omega, rfl⟩⟩

example : ((⟨0, 0, []⟩ : TS).tiles [(8, 10), (0, 4), (0, 4)]).trk = [(4, 8)] ∧
    ((((⟨0, 0, []⟩ : TS).tiles [(8, 10), (0, 4), (0, 4)]).eof 10).tiles []).trk = [(4, 8)] ∧
    ((((⟨0, 0, []⟩ : TS).tiles [(8, 10), (0, 4), (0, 4)]).eof 10).tiles [(4, 8)]).trk = [] ∧
    ((⟨0, 0, []⟩ : TS).tiles [(0, 4)]).eof 10 = ⟨10, 10, [(4, 10)]⟩ := by
  decide

end EveryHistory

end Cfdp.C06
