import CfdpVerif.Props.C07
/-!
# C08 — retransmissions deliver exactly the requested data and nothing else

Model: `Source.handleRetransmission`, `handleSegmentReq(s)`, `segmentChunks` and the resumption in
`fsmAdvancementAfterPacketsWereSent` (`Model/Source.lean`).
-/
set_option linter.unusedSimpArgs false
set_option linter.unusedVariables false

namespace Cfdp.Source.C08

open Cfdp Cfdp.Source

/-- the File Data PDUs that tile `[cur, cur + missing)` in chunks of at most `seg` bytes -/
def chunkPdus (conf : Hdr) (F : List UInt8) (seg : Nat) : Nat → Nat → Nat → List Pdu
  | 0, _, _ => []
  | fuel + 1, cur, missing =>
    if missing > 0 then
      mkFd conf cur ((F.drop cur).take (min missing seg)) ::
        chunkPdus conf F seg fuel (cur + min missing seg) (missing - min missing seg)
    else []

/-- offsets and lengths of the chunks -/
def chunkRanges (seg : Nat) : Nat → Nat → Nat → List (Nat × Nat)
  | 0, _, _ => []
  | fuel + 1, cur, missing =>
    if missing > 0 then
      (cur, min missing seg) :: chunkRanges seg fuel (cur + min missing seg) (missing - min missing seg)
    else []

/-- **The chunks tile the requested range**: consecutive, starting at `cur`, each non-empty and at
most `seg` long, ending exactly at `cur + missing` (given enough fuel, which `missing` itself is). -/
theorem C08_chunks_tile (seg : Nat) (hseg : 0 < seg) :
    ∀ (fuel cur missing : Nat), missing ≤ fuel →
      (∀ r ∈ chunkRanges seg fuel cur missing, 0 < r.2 ∧ r.2 ≤ seg ∧ cur ≤ r.1 ∧ r.1 + r.2 ≤ cur + missing) ∧
      ((chunkRanges seg fuel cur missing).map (·.2)).sum = missing ∧
      List.Pairwise (fun a b => a.1 + a.2 ≤ b.1) (chunkRanges seg fuel cur missing) ∧
      (∀ a b, chunkRanges seg fuel cur missing = a :: b → a.1 = cur) := by
  intro fuel
  induction fuel with
  | zero => intro cur missing h; simp [chunkRanges]; omega
  | succ fuel ih =>
    intro cur missing h
    unfold chunkRanges
    by_cases hm : missing > 0
    · simp only [hm, if_true]
      have hlt : missing - min missing seg ≤ fuel := by omega
      obtain ⟨h1, h2, h3, h4⟩ := ih (cur + min missing seg) (missing - min missing seg) hlt
      refine ⟨?_, ?_, ?_, ?_⟩
      · intro r hr
        simp at hr
        rcases hr with hr | hr
        · subst hr; simp; omega
        · have := h1 r hr; omega
      · simp [h2]; omega
      · simp only [List.pairwise_cons]
        refine ⟨?_, h3⟩
        intro b hb
        have := h1 b hb
        simp; omega
      · intro a b hab; simp at hab; rw [← hab.1]
    · simp [hm]; omega

/-- the PDUs are exactly the file's bytes at those ranges -/
theorem C08_chunk_pdus_content (conf : Hdr) (F : List UInt8) (seg : Nat) :
    ∀ (fuel cur missing : Nat),
      chunkPdus conf F seg fuel cur missing =
        (chunkRanges seg fuel cur missing).map fun r => mkFd conf r.1 ((F.drop r.1).take r.2) := by
  intro fuel
  induction fuel with
  | zero => intro cur missing; simp [chunkPdus, chunkRanges]
  | succ fuel ih =>
    intro cur missing
    unfold chunkPdus chunkRanges
    by_cases hm : missing > 0 <;> simp [hm, ih]

/-- **The retransmission loop emits exactly the chunks.**  `_handle_segment_req`'s `while` loop, run
on any state that has the source file, appends `chunkPdus` to the queue and changes nothing else. -/
theorem C08_segment_chunks (s : SrcSt) (req : PutReq) (src : String) (F : List UInt8) (seg : Nat)
    (hreq : s.putReq = some req) (hsrc : req.src = some src) (hfile : s.fs.get src = some (.file F))
    (hseg : 0 < seg) :
    ∀ (fuel cur missing : Nat) (q : List Pdu) (n : Int), missing ≤ fuel →
      segmentChunks seg fuel cur missing { s with queue := q, numReady := n } =
        .ok () { s with queue := q ++ chunkPdus s.p.conf F seg fuel cur missing,
                        numReady := n + (chunkPdus s.p.conf F seg fuel cur missing).length } := by
  intro fuel
  induction fuel with
  | zero =>
    intro cur missing q n h
    have : missing = 0 := by omega
    subst this
    msimp [segmentChunks, chunkPdus]
  | succ fuel ih =>
    intro cur missing q n h
    unfold segmentChunks chunkPdus
    by_cases hm : missing > 0
    · have hlt : missing - min missing seg ≤ fuel := by omega
      have := ih (cur + min missing seg) (missing - min missing seg)
        (q ++ [mkFd s.p.conf cur ((F.drop cur).take (min missing seg))]) (n + 1) hlt
      simp only [hreq] at this
      msimp [hm, prepareFileDataPdu, hreq, hsrc, hfile, Fs.readData, addPacket]
      rw [this]
      simp [List.append_assoc]
      omega
    · msimp [hm]

/-- **Invalid requests are rejected without emitting anything**: a request that is inverted, starts
beyond the data sent so far, or ends beyond it raises `InvalidNakPdu` and leaves the queue and the
whole handler state as they were. -/
theorem C08_invalid_request_rejected (s : SrcSt) (a b : Nat) (hnz : ¬(a = 0 ∧ b = 0))
    (hbad : b < a ∨ a > s.p.progress ∨ b > s.p.progress) :
    handleSegmentReq (a, b) s = .error .invalidNakPdu s := by
  have h0 : (decide (a = 0) && decide (b = 0)) = false := by
    simp; omega
  unfold handleSegmentReq
  msimp [h0, getP]
  intro h1 h2 h3
  omega

/-- **A valid request is served exactly**: for `a ≤ b ≤ progress` (not the metadata request) the
queue receives the chunks tiling `[a, b)` with the file's bytes; nothing else changes. -/
theorem C08_valid_request_served (s : SrcSt) (req : PutReq) (src : String) (F : List UInt8) (a b : Nat)
    (hreq : s.putReq = some req) (hsrc : req.src = some src) (hfile : s.fs.get src = some (.file F))
    (hseg : 0 < s.p.segmentLen) (hnz : ¬(a = 0 ∧ b = 0)) (hab : a ≤ b) (hb : b ≤ s.p.progress) :
    handleSegmentReq (a, b) s =
      .ok () { s with queue := s.queue ++ chunkPdus s.p.conf F s.p.segmentLen (b - a) a (b - a),
                      numReady := s.numReady + (chunkPdus s.p.conf F s.p.segmentLen (b - a) a (b - a)).length } := by
  have h0 : (decide (a = 0) && decide (b = 0)) = false := by simp; omega
  have h1 : ¬ b < a := by omega
  have h2 : ¬ s.p.progress < a := by omega
  have h3 : ¬ s.p.progress < b := by omega
  have := C08_segment_chunks s req src F s.p.segmentLen hreq hsrc hfile hseg (b - a) a (b - a) s.queue
    s.numReady (Nat.le_refl _)
  unfold handleSegmentReq
  msimp [h0, getP, h1, h2, h3]
  intros
  exact this

/-- **Resumption.**  After the retransmitted PDUs have been retrieved, the next call first restores
the step the sender was in; progress, EOF condition and every other field are untouched, so the
original stream continues exactly where it was (`C07_file_data_call` / `C07_eof_call` apply). -/
theorem C08_resume (s : SrcSt) (st : SStep) (hstep : s.step = .RETRANSMITTING) (hq : s.queue = [])
    (hb : s.stepBefore = some st) :
    fsmAdvancementAfterPacketsWereSent s = .ok () { s with step := st } := by
  msimp [fsmAdvancementAfterPacketsWereSent, hstep, hq, hb]

/-- entering retransmission records the step to resume in and touches neither progress nor the
EOF condition -/
theorem C08_nak_enters_retransmission (s s' : SrcSt) (h : Hdr) (sos eos : Nat) (reqs : List (Nat × Nat))
    (hs : handleSegmentReqs reqs s = .ok () s') :
    handleRetransmission (some (.nak h sos eos reqs)) s =
      .ok true { s' with stepBefore := some s'.step, step := .RETRANSMITTING } := by
  msimp [handleRetransmission, hs]

/-- the request (0,0) re-sends the Metadata PDU, built by the very function that built the original
(same names, size, checksum type, closure flag, options) -/
theorem C08_metadata_request (s : SrcSt) : handleSegmentReq (0, 0) s = prepareMetadataPdu s := by
  msimp [handleSegmentReq]

/-- non-vacuity: a 10-byte request at offset 3 with segment length 4 is served as (3,4) (7,4) (11,2) -/
example : chunkRanges 4 10 3 10 = [(3, 4), (7, 4), (11, 2)] := by decide

/-! ## A NAK with any number of requests, at every step of the sender -/

/-- the request is the metadata request or lies within the data sent so far -/
def ValidReq (progress : Nat) (r : Nat × Nat) : Prop := r = (0, 0) ∨ (r.1 ≤ r.2 ∧ r.2 ≤ progress)

/-- what the sender re-sends for one request: the original Metadata PDU for `(0,0)`, the File Data
PDUs tiling `[a, b)` otherwise -/
def answer (p : Params) (rc : RemoteCfg) (req : PutReq) (src dst : String) (F : List UInt8) (r : Nat × Nat) :
    List Pdu :=
  if r = (0, 0) then [mkMd p.conf p.closure rc.cks p.fileSize (some src) (some dst) (some (req.msgs.getD []))]
  else chunkPdus p.conf F p.segmentLen (r.2 - r.1) r.1 (r.2 - r.1)

/-- the sender with these PDUs appended to its queue -/
def queued (s : SrcSt) (l : List Pdu) : SrcSt :=
  { s with queue := s.queue ++ l, numReady := s.numReady + l.length }

theorem queued_nil (s : SrcSt) : queued s [] = s := by simp [queued]

theorem queued_queued (s : SrcSt) (l m : List Pdu) : queued (queued s l) m = queued s (l ++ m) := by
  simp [queued, List.append_assoc]; omega

/-- one valid request, served (metadata request included) -/
theorem C08_request_answered (s : SrcSt) (rc : RemoteCfg) (req : PutReq) (src dst : String) (F : List UInt8)
    (r : Nat × Nat) (hreq : s.putReq = some req) (hsrc : req.src = some src) (hdst : req.dst = some dst)
    (hrc : s.p.remoteCfg = some rc) (hfile : s.fs.get src = some (.file F)) (hseg : 0 < s.p.segmentLen)
    (hv : ValidReq s.p.progress r) :
    handleSegmentReq r s = .ok () (queued s (answer s.p rc req src dst F r)) := by
  by_cases h0 : r = (0, 0)
  · subst h0
    rw [C08_metadata_request]
    msimp [prepareMetadataPdu, hreq, PutReq.metadataOnly, hsrc, hdst, hrc, addPacket, queued, answer]
  · obtain ⟨a, b⟩ := r
    have hnz : ¬ (a = 0 ∧ b = 0) := by intro h; exact h0 (by rw [h.1, h.2])
    rcases hv with hv | hv
    · exact absurd hv h0
    · rw [C08_valid_request_served s req src F a b hreq hsrc hfile hseg hnz hv.1 hv.2]
      simp [queued, answer, h0]

/-- **Any number of valid requests**: the loop over the NAK's requests appends, in the order of the
requests, the answer to each — and changes nothing else: progress, EOF condition, step, timers. -/
theorem C08_requests_answered (rc : RemoteCfg) (req : PutReq) (src dst : String) (F : List UInt8) :
    ∀ (reqs : List (Nat × Nat)) (s : SrcSt), s.putReq = some req → req.src = some src → req.dst = some dst →
      s.p.remoteCfg = some rc → s.fs.get src = some (.file F) → 0 < s.p.segmentLen →
      (∀ r ∈ reqs, ValidReq s.p.progress r) →
      handleSegmentReqs reqs s = .ok () (queued s (reqs.flatMap (answer s.p rc req src dst F))) := by
  intro reqs
  induction reqs with
  | nil => intro s _ _ _ _ _ _ _; msimp [handleSegmentReqs, queued]
  | cons r reqs ih =>
    intro s hreq hsrc hdst hrc hfile hseg hv
    have h1 := C08_request_answered s rc req src dst F r hreq hsrc hdst hrc hfile hseg (hv r List.mem_cons_self)
    have h2 := ih (queued s (answer s.p rc req src dst F r)) hreq hsrc hdst hrc hfile hseg
      (fun q hq => hv q (List.mem_cons_of_mem _ hq))
    unfold handleSegmentReqs
    msimp [h1]
    rw [h2, queued_queued]
    simp [queued, List.flatMap_cons]

/-- **The first invalid request stops the loop**: the requests before it have been answered (their PDUs
are queued and are data of the file), the exception `InvalidNakPdu` is raised, nothing is emitted for the
invalid request or any later one, and the sender's step and progress are untouched. -/
theorem C08_first_invalid_stops (rc : RemoteCfg) (req : PutReq) (src dst : String) (F : List UInt8)
    (good rest : List (Nat × Nat)) (a b : Nat) (s : SrcSt) (hreq : s.putReq = some req) (hsrc : req.src = some src)
    (hdst : req.dst = some dst) (hrc : s.p.remoteCfg = some rc) (hfile : s.fs.get src = some (.file F))
    (hseg : 0 < s.p.segmentLen) (hv : ∀ r ∈ good, ValidReq s.p.progress r) (hnz : ¬(a = 0 ∧ b = 0))
    (hbad : b < a ∨ a > s.p.progress ∨ b > s.p.progress) :
    handleSegmentReqs (good ++ (a, b) :: rest) s =
      .error .invalidNakPdu (queued s (good.flatMap (answer s.p rc req src dst F))) := by
  induction good generalizing s with
  | nil =>
    have := C08_invalid_request_rejected s a b hnz hbad
    unfold handleSegmentReqs
    msimp [this, queued]
  | cons r good ih =>
    have h1 := C08_request_answered s rc req src dst F r hreq hsrc hdst hrc hfile hseg (hv r List.mem_cons_self)
    have h2 := ih (queued s (answer s.p rc req src dst F r)) hreq hrc hfile hseg
      (fun q hq => hv q (List.mem_cons_of_mem _ hq)) hbad
    simp only [List.cons_append]
    unfold handleSegmentReqs
    msimp [h1]
    rw [h2, queued_queued]
    simp [queued, List.flatMap_cons]

/-- the steps in which the sender of an acknowledged transfer accepts a NAK -/
def NakStep (s : SrcSt) : Prop :=
  (s.step = .SENDING_FILE_DATA ∧ s.p.progress ≠ s.p.fileSize) ∨ s.step = .WAITING_FOR_EOF_ACK ∨
    s.step = .WAITING_FOR_FINISHED

/-- the sender after the call that served a NAK -/
def afterNak (s : SrcSt) (l : List Pdu) : SrcSt :=
  { s with queue := s.queue ++ l, numReady := s.numReady + l.length, stepBefore := some s.step,
           step := .RETRANSMITTING }

/-- **The whole call.**  An admitted NAK PDU with any number of valid requests arrives while the
sender streams file data, waits for the ACK of its EOF or waits for the Finished PDU: the call queues
exactly the answers to the requests, in order, and nothing else — no original File Data PDU, no EOF —;
it remembers the step it was in; progress, EOF condition, timers, counters, indications and filestore
are untouched. -/
theorem C08_nak_call (env : Env) (s : SrcSt) (rc : RemoteCfg) (req : PutReq) (src dst : String) (F : List UInt8)
    (h : Hdr) (sos eos : Nat) (reqs : List (Nat × Nat))
    (hadm : checkInsertedPacket env (.nak h sos eos reqs) s = .ok () s)
    (hb : s.state = .busy) (hq : s.queue = []) (hmode : s.p.conf.mode = .ack) (hstep : NakStep s)
    (hreq : s.putReq = some req) (hsrc : req.src = some src) (hdst : req.dst = some dst)
    (hrc : s.p.remoteCfg = some rc) (hfile : s.fs.get src = some (.file F)) (hseg : 0 < s.p.segmentLen)
    (hv : ∀ r ∈ reqs, ValidReq s.p.progress r) :
    stateMachine env (some (.nak h sos eos reqs)) s =
      .ok () (afterNak s (reqs.flatMap (answer s.p rc req src dst F))) := by
  have hserve := C08_requests_answered rc req src dst F reqs s hreq hsrc hdst hrc hfile hseg hv
  rcases hstep with ⟨hs, hp⟩ | hs | hs
  · msimp [stateMachine, hadm, hb, fsmNonIdle, fsmAdvancementAfterPacketsWereSent, hq, hs, hp, hreq,
      fsmFromSendingFileData, sendingFileDataFsm, transmissionMode, hmode, handleRetransmission, hserve, queued,
      afterNak]
  · msimp [stateMachine, hadm, hb, fsmNonIdle, fsmAdvancementAfterPacketsWereSent, hq, hs, hreq,
      fsmFromSendingFileData, fsmFromSendingEof, fsmFromWaitingForEofAck, handleWaitingForAck,
      handleRetransmission, hserve, queued, afterNak, fsmFromWaitingForFinished, fsmFromNoticeOfCompletion]
  · msimp [stateMachine, hadm, hb, fsmNonIdle, fsmAdvancementAfterPacketsWereSent, hq, hs, hreq,
      fsmFromSendingFileData, fsmFromSendingEof, fsmFromWaitingForEofAck, fsmFromWaitingForFinished,
      handleWaitForFinish, transmissionMode, hmode, handleRetransmission, hserve, queued, afterNak,
      fsmFromNoticeOfCompletion]

/-- **A NAK with an invalid request**: the call raises `InvalidNakPdu`; what it queued before reaching
the invalid request are answers to valid requests (file data inside what was sent); the sender's step
is unchanged, so the next call continues the transfer. -/
theorem C08_nak_call_invalid (env : Env) (s : SrcSt) (rc : RemoteCfg) (req : PutReq) (src dst : String)
    (F : List UInt8) (h : Hdr) (sos eos : Nat) (good rest : List (Nat × Nat)) (a b : Nat)
    (hadm : checkInsertedPacket env (.nak h sos eos (good ++ (a, b) :: rest)) s = .ok () s)
    (hb : s.state = .busy) (hq : s.queue = []) (hmode : s.p.conf.mode = .ack) (hstep : NakStep s)
    (hreq : s.putReq = some req) (hsrc : req.src = some src) (hdst : req.dst = some dst)
    (hrc : s.p.remoteCfg = some rc) (hfile : s.fs.get src = some (.file F)) (hseg : 0 < s.p.segmentLen)
    (hv : ∀ r ∈ good, ValidReq s.p.progress r) (hnz : ¬(a = 0 ∧ b = 0))
    (hbad : b < a ∨ a > s.p.progress ∨ b > s.p.progress) :
    stateMachine env (some (.nak h sos eos (good ++ (a, b) :: rest))) s =
      .error .invalidNakPdu (queued s (good.flatMap (answer s.p rc req src dst F))) := by
  have hserve := C08_first_invalid_stops rc req src dst F good rest a b s hreq hsrc hdst hrc hfile hseg hv hnz hbad
  rcases hstep with ⟨hs, hp⟩ | hs | hs
  · msimp [stateMachine, hadm, hb, fsmNonIdle, fsmAdvancementAfterPacketsWereSent, hq, hs, hp, hreq,
      fsmFromSendingFileData, sendingFileDataFsm, transmissionMode, hmode, handleRetransmission, hserve, queued]
  · msimp [stateMachine, hadm, hb, fsmNonIdle, fsmAdvancementAfterPacketsWereSent, hq, hs, hreq,
      fsmFromSendingFileData, fsmFromSendingEof, fsmFromWaitingForEofAck, handleWaitingForAck,
      handleRetransmission, hserve, queued]
  · msimp [stateMachine, hadm, hb, fsmNonIdle, fsmAdvancementAfterPacketsWereSent, hq, hs, hreq,
      fsmFromSendingFileData, fsmFromSendingEof, fsmFromWaitingForEofAck, fsmFromWaitingForFinished,
      handleWaitForFinish, transmissionMode, hmode, handleRetransmission, hserve, queued]

/-- **Resumption, as a whole call.**  Once the retransmitted PDUs have been retrieved, the next call
(with any packet or none) behaves exactly like that call on the sender as it was before the NAK —
same step, same progress, same timers —: no original File Data PDU is skipped or repeated, the EOF is
unchanged, and a further NAK is served from there. -/
theorem C08_resume_call (env : Env) (s : SrcSt) (st : SStep) (pkt : Option Pdu)
    (hadm : ∀ pdu, pkt = some pdu → checkInsertedPacket env pdu s = .ok () s ∧
      checkInsertedPacket env pdu { s with step := st } = .ok () { s with step := st })
    (hb : s.state = .busy) (hstep : s.step = .RETRANSMITTING) (hq : s.queue = []) (hsb : s.stepBefore = some st)
    (hst : NakStep { s with step := st }) :
    stateMachine env pkt s = stateMachine env pkt { s with step := st } := by
  obtain ⟨sta, stp, nr, p, sb, pr, q, fs, fl, pv, ind, flt⟩ := s
  simp only at hb hstep hq hsb hst hadm ⊢
  subst hb hstep hq hsb
  have hadv := C08_resume ⟨.busy, .RETRANSMITTING, nr, p, some st, pr, [], fs, fl, pv, ind, flt⟩ st rfl rfl rfl
  have hadv2 : fsmAdvancementAfterPacketsWereSent ⟨.busy, st, nr, p, some st, pr, [], fs, fl, pv, ind, flt⟩ =
      .ok () ⟨.busy, st, nr, p, some st, pr, [], fs, fl, pv, ind, flt⟩ := by
    rcases hst with ⟨hs, hp⟩ | hs | hs <;> simp only at hs
    · simp only at hp
      msimp [fsmAdvancementAfterPacketsWereSent, hs, hp]
    · msimp [fsmAdvancementAfterPacketsWereSent, hs]
    · msimp [fsmAdvancementAfterPacketsWereSent, hs]
  simp only at hadv
  cases pkt with
  | none =>
    unfold stateMachine fsmNonIdle
    simp only [bind, EStateM.bind, pure, EStateM.pure, get, getThe, MonadStateOf.get, EStateM.get, reduceCtorEq,
      ↓reduceIte, hadv, hadv2]
  | some pdu =>
    obtain ⟨a1, a2⟩ := hadm pdu rfl
    unfold stateMachine fsmNonIdle
    simp only [bind, EStateM.bind, pure, EStateM.pure, get, getThe, MonadStateOf.get, EStateM.get, a1, a2, reduceCtorEq,
      ↓reduceIte, hadv, hadv2]

/-! ### non-vacuity: an acknowledged transfer of 9 bytes in segments of 4; after the EOF a NAK asks for
the Metadata, the middle tile and the first two bytes; then one with an inverted request in second place -/

def exEnvA : Env := ⟨⟨⟨1, 2⟩, true, true, true, true,
  [⟨⟨2, 2⟩, some 4, 64, false, false, .ack, 0, 1000, 2, 2, false, true, 1000, 2⟩], 1000⟩, 0⟩

def exHdrA : Hdr := ⟨.toSend, .ack, false, false, ⟨1, 2⟩, ⟨2, 2⟩, ⟨0, 2⟩⟩
def exConfA : Hdr := ⟨.toRecv, .ack, false, false, ⟨1, 2⟩, ⟨2, 2⟩, ⟨0, 2⟩⟩

/-- the sender after put request and five rounds (Metadata, three tiles, EOF): waiting for the ACK -/
def exWaiting : Option SrcSt :=
  match putRequest exEnvA C07.exReq C07.exInit with
  | .ok _ s => (C07.rounds exEnvA 5 s).map (·.2)
  | .error _ _ => none

example :
    (exWaiting.map fun s =>
      match stateMachine exEnvA (some (.nak exHdrA 0 9 [(0, 0), (4, 8), (0, 2)])) s with
      | .ok _ s' => (s'.queue, s'.step, s'.stepBefore, s'.p.progress)
      | .error _ _ => ([], .IDLE, none, 0)) =
    some ([mkMd exConfA false 0 9 (some "/f") (some "/g") (some []), mkFd exConfA 4 [5, 6, 7, 8],
           mkFd exConfA 0 [1, 2]], .RETRANSMITTING, some .WAITING_FOR_EOF_ACK, 9) := by
  decide +kernel

example :
    (exWaiting.map fun s =>
      match stateMachine exEnvA (some (.nak exHdrA 0 9 [(4, 8), (8, 4), (0, 2)])) s with
      | .ok _ _ => none
      | .error e s' => some (e, s'.queue, s'.step)) =
    some (some (.invalidNakPdu, [mkFd exConfA 4 [5, 6, 7, 8]], .WAITING_FOR_EOF_ACK)) := by
  decide +kernel

end Cfdp.Source.C08
