import CfdpVerif.Props.C07
/-!
# C08 — retransmissions deliver exactly the requested data and nothing else

Model: `Source.handleRetransmission`, `handleSegmentReq(s)`, `segmentChunks` and the resumption in
`fsmAdvancementAfterPacketsWereSent` (`Model/Source.lean`).
-/
set_option linter.unusedSimpArgs false
set_option linter.unusedVariables false

namespace Cfdp.Source.C08

open Cfdp Cfdp.Source

/-- the File Data PDUs that tile `[cur, cur + missing)` in chunks of at most `seg` bytes -/
def chunkPdus (conf : Hdr) (F : List UInt8) (seg : Nat) : Nat → Nat → Nat → List Pdu
  | 0, _, _ => []
  | fuel + 1, cur, missing =>
    if missing > 0 then
      mkFd conf cur ((F.drop cur).take (min missing seg)) ::
        chunkPdus conf F seg fuel (cur + min missing seg) (missing - min missing seg)
    else []

/-- offsets and lengths of the chunks -/
def chunkRanges (seg : Nat) : Nat → Nat → Nat → List (Nat × Nat)
  | 0, _, _ => []
  | fuel + 1, cur, missing =>
    if missing > 0 then
      (cur, min missing seg) :: chunkRanges seg fuel (cur + min missing seg) (missing - min missing seg)
    else []

/-- **The chunks tile the requested range**: consecutive, starting at `cur`, each non-empty and at
most `seg` long, ending exactly at `cur + missing` (given enough fuel, which `missing` itself is). -/
theorem C08_chunks_tile (seg : Nat) (hseg : 0 < seg) :
    ∀ (fuel cur missing : Nat), missing ≤ fuel →
      (∀ r ∈ chunkRanges seg fuel cur missing, 0 < r.2 ∧ r.2 ≤ seg ∧ cur ≤ r.1 ∧ r.1 + r.2 ≤ cur + missing) ∧
      ((chunkRanges seg fuel cur missing).map (·.2)).sum = missing ∧
      List.Pairwise (fun a b => a.1 + a.2 ≤ b.1) (chunkRanges seg fuel cur missing) ∧
      (∀ a b, chunkRanges seg fuel cur missing = a :: b → a.1 = cur) := by
  intro fuel
  induction fuel with
  | zero => intro cur missing h; simp [chunkRanges]; omega
  | succ fuel ih =>
    intro cur missing h
    unfold chunkRanges
    by_cases hm : missing > 0
    · simp only [hm, if_true]
      have hlt : missing - min missing seg ≤ fuel := by omega
      obtain ⟨h1, h2, h3, h4⟩ := ih (cur + min missing seg) (missing - min missing seg) hlt
      refine ⟨?_, ?_, ?_, ?_⟩
      · intro r hr
        simp at hr
        rcases hr with hr | hr
        · subst hr; simp; omega
        · have := h1 r hr; omega
      · simp [h2]; omega
      · simp only [List.pairwise_cons]
        refine ⟨?_, h3⟩
        intro b hb
        have := h1 b hb
        simp; omega
      · intro a b hab; simp at hab; rw [← hab.1]
    · simp [hm]; omega

/-- the PDUs are exactly the file's bytes at those ranges -/
theorem C08_chunk_pdus_content (conf : Hdr) (F : List UInt8) (seg : Nat) :
    ∀ (fuel cur missing : Nat),
      chunkPdus conf F seg fuel cur missing =
        (chunkRanges seg fuel cur missing).map fun r => mkFd conf r.1 ((F.drop r.1).take r.2) := by
  intro fuel
  induction fuel with
  | zero => intro cur missing; simp [chunkPdus, chunkRanges]
  | succ fuel ih =>
    intro cur missing
    unfold chunkPdus chunkRanges
    by_cases hm : missing > 0 <;> simp [hm, ih]

/-- **The retransmission loop emits exactly the chunks.**  `_handle_segment_req`'s `while` loop, run
on any state that has the source file, appends `chunkPdus` to the queue and changes nothing else. -/
theorem C08_segment_chunks (s : SrcSt) (req : PutReq) (src : String) (F : List UInt8) (seg : Nat)
    (hreq : s.putReq = some req) (hsrc : req.src = some src) (hfile : s.fs.get src = some (.file F))
    (hseg : 0 < seg) :
    ∀ (fuel cur missing : Nat) (q : List Pdu) (n : Int), missing ≤ fuel →
      segmentChunks seg fuel cur missing { s with queue := q, numReady := n } =
        .ok () { s with queue := q ++ chunkPdus s.p.conf F seg fuel cur missing,
                        numReady := n + (chunkPdus s.p.conf F seg fuel cur missing).length } := by
  intro fuel
  induction fuel with
  | zero =>
    intro cur missing q n h
    have : missing = 0 := by omega
    subst this
    msimp [segmentChunks, chunkPdus]
  | succ fuel ih =>
    intro cur missing q n h
    unfold segmentChunks chunkPdus
    by_cases hm : missing > 0
    · have hlt : missing - min missing seg ≤ fuel := by omega
      have := ih (cur + min missing seg) (missing - min missing seg)
        (q ++ [mkFd s.p.conf cur ((F.drop cur).take (min missing seg))]) (n + 1) hlt
      simp only [hreq] at this
      msimp [hm, prepareFileDataPdu, hreq, hsrc, hfile, Fs.readData, addPacket]
      rw [this]
      simp [List.append_assoc]
      omega
    · msimp [hm]

/-- **Invalid requests are rejected without emitting anything**: a request that is inverted, starts
beyond the data sent so far, or ends beyond it raises `InvalidNakPdu` and leaves the queue and the
whole handler state as they were. -/
theorem C08_invalid_request_rejected (s : SrcSt) (a b : Nat) (hnz : ¬(a = 0 ∧ b = 0))
    (hbad : b < a ∨ a > s.p.progress ∨ b > s.p.progress) :
    handleSegmentReq (a, b) s = .error .invalidNakPdu s := by
  have h0 : (decide (a = 0) && decide (b = 0)) = false := by
    simp; omega
  unfold handleSegmentReq
  msimp [h0, getP]
  intro h1 h2 h3
  omega

/-- **A valid request is served exactly**: for `a ≤ b ≤ progress` (not the metadata request) the
queue receives the chunks tiling `[a, b)` with the file's bytes; nothing else changes. -/
theorem C08_valid_request_served (s : SrcSt) (req : PutReq) (src : String) (F : List UInt8) (a b : Nat)
    (hreq : s.putReq = some req) (hsrc : req.src = some src) (hfile : s.fs.get src = some (.file F))
    (hseg : 0 < s.p.segmentLen) (hnz : ¬(a = 0 ∧ b = 0)) (hab : a ≤ b) (hb : b ≤ s.p.progress) :
    handleSegmentReq (a, b) s =
      .ok () { s with queue := s.queue ++ chunkPdus s.p.conf F s.p.segmentLen (b - a) a (b - a),
                      numReady := s.numReady + (chunkPdus s.p.conf F s.p.segmentLen (b - a) a (b - a)).length } := by
  have h0 : (decide (a = 0) && decide (b = 0)) = false := by simp; omega
  have h1 : ¬ b < a := by omega
  have h2 : ¬ s.p.progress < a := by omega
  have h3 : ¬ s.p.progress < b := by omega
  have := C08_segment_chunks s req src F s.p.segmentLen hreq hsrc hfile hseg (b - a) a (b - a) s.queue
    s.numReady (Nat.le_refl _)
  unfold handleSegmentReq
  msimp [h0, getP, h1, h2, h3]
  intros
  exact this

/-- **Resumption.**  After the retransmitted PDUs have been retrieved, the next call first restores
the step the sender was in; progress, EOF condition and every other field are untouched, so the
original stream continues exactly where it was (`C07_file_data_call` / `C07_eof_call` apply). -/
theorem C08_resume (s : SrcSt) (st : SStep) (hstep : s.step = .RETRANSMITTING) (hq : s.queue = [])
    (hb : s.stepBefore = some st) :
    fsmAdvancementAfterPacketsWereSent s = .ok () { s with step := st } := by
  msimp [fsmAdvancementAfterPacketsWereSent, hstep, hq, hb]

/-- entering retransmission records the step to resume in and touches neither progress nor the
EOF condition -/
theorem C08_nak_enters_retransmission (s s' : SrcSt) (h : Hdr) (sos eos : Nat) (reqs : List (Nat × Nat))
    (hs : handleSegmentReqs reqs s = .ok () s') :
    handleRetransmission (some (.nak h sos eos reqs)) s =
      .ok true { s' with stepBefore := some s'.step, step := .RETRANSMITTING } := by
  msimp [handleRetransmission, hs]

/-- the request (0,0) re-sends the Metadata PDU, built by the very function that built the original
(same names, size, checksum type, closure flag, options) -/
theorem C08_metadata_request (s : SrcSt) : handleSegmentReq (0, 0) s = prepareMetadataPdu s := by
  msimp [handleSegmentReq]

/-- non-vacuity: a 10-byte request at offset 3 with segment length 4 is served as (3,4) (7,4) (11,2) -/
example : chunkRanges 4 10 3 10 = [(3, 4), (7, 4), (11, 2)] := by decide

end Cfdp.Source.C08
