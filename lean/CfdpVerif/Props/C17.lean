import CfdpVerif.Model.Fs
import Mathlib.Data.String.Basic
/-!
# C17 — native filestore operations match a reference file-system model

`Model/Fs.lean` *is* the reference model of the documented semantics; the implementation
(`NativeFilestore` on the host OS) is compared with it by differential execution on every run
(the decisive check for this property, see DESIGN.md §6 C17).  Proved here are the laws of the
reference model itself, for every tree, path, payload and offset:

* the tree is a finite map with strictly ascending paths, an invariant of every operation (`WF`);
* a refused or failing operation returns the tree unchanged, a success code implies the effect;
* data written at an offset is read back identically, leaves all other bytes untouched and
  zero-fills a gap (`C17_write_read`, `C17_write_frame`, `C17_write_gap_zero`).
-/
set_option linter.unusedSimpArgs false
set_option linter.unusedVariables false

namespace Cfdp.Fs.C17

open Cfdp Cfdp.Fs

/-! ### the tree as a finite map -/

/-- paths strictly ascending (hence unique) -/
def WF (fs : Fs) : Prop := fs.Pairwise (fun a b => a.1 < b.1)

theorem get_set_same (fs : Fs) (p : String) (n : Node) : (fs.set p n).get p = some n := by
  induction fs with
  | nil => simp [Fs.set, Fs.get]
  | cons e t ih =>
    obtain ⟨q, m⟩ := e
    unfold Fs.set
    by_cases h1 : p < q
    · simp [h1, Fs.get]
    · by_cases h2 : p = q
      · simp [h1, h2, Fs.get]
      · have : q ≠ p := fun h => h2 h.symm
        simp [h1, h2, Fs.get, this, ih]

theorem get_set_other (fs : Fs) (p q : String) (n : Node) (h : q ≠ p) :
    (fs.set p n).get q = fs.get q := by
  induction fs with
  | nil => simp [Fs.set, Fs.get, Ne.symm h]
  | cons e t ih =>
    obtain ⟨r, m⟩ := e
    unfold Fs.set
    by_cases h1 : p < r
    · simp [h1, Fs.get, Ne.symm h]
    · by_cases h2 : p = r
      · subst h2; simp [h1, Fs.get, Ne.symm h]
      · simp only [h1, h2, if_false, Fs.get]
        by_cases h3 : r = q
        · simp [h3]
        · simp [h3, ih]

theorem get_del_other (fs : Fs) (p q : String) (h : q ≠ p) : (fs.del p).get q = fs.get q := by
  induction fs with
  | nil => rfl
  | cons e t ih =>
    obtain ⟨r, m⟩ := e
    unfold Fs.del
    by_cases h1 : r = p
    · subst h1; simp [Fs.get, Ne.symm h]
    · simp only [h1, if_false, Fs.get]
      by_cases h3 : r = q <;> simp [h3, ih]

theorem get_none_of_lt (fs : Fs) (p : String) (hall : ∀ e ∈ fs, p < e.1) : fs.get p = none := by
  induction fs with
  | nil => rfl
  | cons e t ih =>
    obtain ⟨r, m⟩ := e
    have h1 : p < r := hall (r, m) (by simp)
    have h2 : r ≠ p := fun h => by subst h; exact lt_irrefl _ h1
    simp [Fs.get, h2]
    exact ih (fun e he => hall e (by simp [he]))

theorem get_del_same (fs : Fs) (p : String) (hw : WF fs) : (fs.del p).get p = none := by
  induction fs with
  | nil => rfl
  | cons e t ih =>
    obtain ⟨r, m⟩ := e
    have hw' := List.pairwise_cons.mp hw
    unfold Fs.del
    by_cases h1 : r = p
    · subst h1
      simp only [if_true]
      exact get_none_of_lt t r (fun e he => hw'.1 e he)
    · simp only [h1, if_false, Fs.get]
      exact ih hw'.2

theorem set_wf (fs : Fs) (p : String) (n : Node) (hw : WF fs) : WF (fs.set p n) := by
  induction fs with
  | nil => simp [Fs.set, WF]
  | cons e t ih =>
    obtain ⟨r, m⟩ := e
    have hw' := List.pairwise_cons.mp hw
    unfold Fs.set
    by_cases h1 : p < r
    · simp only [h1, if_true, WF]
      refine List.pairwise_cons.mpr ⟨?_, hw⟩
      intro e he
      rcases List.mem_cons.mp he with h | h
      · subst h; exact h1
      · exact lt_trans h1 (hw'.1 e h)
    · by_cases h2 : p = r
      · subst h2
        simp only [h1, if_false, if_true, WF]
        exact List.pairwise_cons.mpr ⟨hw'.1, hw'.2⟩
      · simp only [h1, h2, if_false, WF]
        refine List.pairwise_cons.mpr ⟨?_, ih hw'.2⟩
        intro e he
        have hrp : r < p := lt_of_le_of_ne (not_lt.mp h1) (Ne.symm h2)
        -- every key of `set t p n` is `p` or a key of `t`
        have hmem : ∀ (t : Fs) (e : String × Node), e ∈ Fs.set t p n → e.1 = p ∨ e ∈ t := by
          intro t
          induction t with
          | nil => intro e he; simp [Fs.set] at he; left; rw [he]
          | cons x xs ihx =>
            obtain ⟨s, k⟩ := x
            intro e he
            unfold Fs.set at he
            by_cases a1 : p < s
            · rw [if_pos a1] at he
              rcases List.mem_cons.mp he with h | h
              · left; rw [h]
              · right; exact h
            · rw [if_neg a1] at he
              by_cases a2 : p = s
              · rw [if_pos a2] at he
                rcases List.mem_cons.mp he with h | h
                · left; rw [h]
                · right; exact List.mem_cons_of_mem _ h
              · rw [if_neg a2] at he
                rcases List.mem_cons.mp he with h | h
                · right; rw [h]; exact List.mem_cons_self
                · rcases ihx e h with h' | h'
                  · left; exact h'
                  · right; exact List.mem_cons_of_mem _ h'
        rcases hmem t e he with h | h
        · rw [h]; exact hrp
        · exact hw'.1 e h

theorem del_wf (fs : Fs) (p : String) (hw : WF fs) : WF (fs.del p) := by
  induction fs with
  | nil => exact hw
  | cons e t ih =>
    obtain ⟨r, m⟩ := e
    have hw' := List.pairwise_cons.mp hw
    unfold Fs.del
    by_cases h1 : r = p
    · simp only [h1, if_true]; exact hw'.2
    · simp only [h1, if_false, WF]
      refine List.pairwise_cons.mpr ⟨?_, ih hw'.2⟩
      intro e he
      have hsub : ∀ (t : Fs) (e : String × Node), e ∈ Fs.del t p → e ∈ t := by
        intro t
        induction t with
        | nil => intro e he; exact he
        | cons x xs ihx =>
          intro e he
          unfold Fs.del at he
          by_cases a : x.1 = p
          · simp only [a, if_true] at he; exact List.mem_cons_of_mem _ he
          · simp only [a, if_false] at he
            rcases List.mem_cons.mp he with h | h
            · rw [h]; exact List.mem_cons_self
            · exact List.mem_cons_of_mem _ (ihx e h)
      exact hw'.1 e (hsub t e he)

/-! ### refusals and failures leave the tree unchanged; successes have their effect -/

/-- every status code other than the operation's success code comes with the unchanged tree -/
theorem C17_refused_unchanged (fs : Fs) (p q : String) (b : Bool) :
    ((createFile fs p).1 ≠ CREATE_SUCCESS → (createFile fs p).2 = fs) ∧
    ((deleteFile fs p).1 ≠ DELETE_SUCCESS → (deleteFile fs p).2 = fs) ∧
    ((renameFile fs p q).1 ≠ RENAME_SUCCESS → (renameFile fs p q).2 = fs) ∧
    ((replaceFile fs p q).1 ≠ REPLACE_SUCCESS → (replaceFile fs p q).2 = fs) ∧
    ((createDirectory fs p).1 ≠ CREATE_DIR_SUCCESS → (createDirectory fs p).2 = fs) ∧
    ((removeDirectory fs p b).1 ≠ REMOVE_DIR_SUCCESS → (removeDirectory fs p b).2 = fs) := by
  refine ⟨?_, ?_, ?_, ?_, ?_, ?_⟩
  · unfold createFile; split <;> (try split) <;> simp
  · unfold deleteFile; split <;> (try split) <;> simp
  · unfold renameFile; split <;> (try split) <;> (try split) <;> (try split) <;> simp
  · unfold replaceFile; split <;> (try split) <;> (try split) <;> (try split) <;> simp
  · unfold createDirectory; split <;> simp [CREATE_DIR_SUCCESS, CREATE_DIR_CAN_NOT_BE_CREATED]
  · unfold removeDirectory; split <;> (try split) <;> (try split) <;> (try split) <;> simp

/-- operations that raise (`truncate_file`, `write_data`, `read_data`, `file_size` on a missing
file or a directory) have no result tree at all: the caller keeps the tree it had -/
theorem C17_raising_operations (fs : Fs) (p : String) (d : List UInt8) (o : Nat) :
    (fs.get p = none → truncateFile fs p ≠ .ok fs ∧ (∀ f, truncateFile fs p ≠ .ok f) ∧
      (∀ f, writeData fs p d o ≠ .ok f) ∧ (∀ r, readData fs p o none ≠ .ok r)) ∧
    (fs.get p = some .dir → (∀ f, truncateFile fs p ≠ .ok f) ∧ (∀ f, writeData fs p d o ≠ .ok f) ∧
      (∀ r, readData fs p o none ≠ .ok r)) := by
  constructor
  · intro h
    have ht : ∀ f, truncateFile fs p ≠ .ok f := by
      intro f; simp only [truncateFile, h]; split <;> simp
    refine ⟨ht fs, ht, ?_, ?_⟩
    · intro f; simp only [writeData, h]; split <;> simp
    · intro r; simp only [readData, h]; split <;> simp
  · intro h
    refine ⟨?_, ?_, ?_⟩ <;> intro f <;> simp [truncateFile, writeData, readData, h]

/-- `create_file` succeeds exactly when the name is free and the parent is a directory; afterwards
the file exists and is empty, and no other path changed -/
theorem C17_create_file (fs : Fs) (p : String) :
    ((createFile fs p).1 = CREATE_SUCCESS ↔ (exists' fs p = false ∧ parentIsDir fs p = true)) ∧
    ((createFile fs p).1 = CREATE_SUCCESS →
      (createFile fs p).2.get p = some (.file []) ∧ ∀ q, q ≠ p → (createFile fs p).2.get q = fs.get q) := by
  unfold createFile
  cases h1 : exists' fs p <;> cases h2 : parentIsDir fs p <;>
    simp [CREATE_SUCCESS, CREATE_NOT_ALLOWED, get_set_same, get_set_other]
  intro q hq; exact get_set_other fs p q _ hq

/-- `delete_file`: the specific refusal codes; on success the file is gone and nothing else changed -/
theorem C17_delete_file (fs : Fs) (p : String) (hw : WF fs) :
    (exists' fs p = false → (deleteFile fs p).1 = DELETE_FILE_DOES_NOT_EXIST) ∧
    (exists' fs p = true → isDir fs p = true → (deleteFile fs p).1 = DELETE_NOT_ALLOWED) ∧
    (exists' fs p = true → isDir fs p = false →
      (deleteFile fs p).1 = DELETE_SUCCESS ∧ (deleteFile fs p).2.get p = none ∧
      ∀ q, q ≠ p → (deleteFile fs p).2.get q = fs.get q) := by
  unfold deleteFile
  refine ⟨?_, ?_, ?_⟩
  · intro h; simp [h]
  · intro h1 h2; simp [h1, h2]
  · intro h1 h2
    simp only [h1, h2, Bool.not_true, Bool.false_eq_true, if_false]
    exact ⟨by simp, get_del_same fs p hw, fun q hq => get_del_other fs p q hq⟩

/-- `truncate_file`, `write_data`: on success exactly that file changed -/
theorem C17_write_data (fs : Fs) (p : String) (old d : List UInt8) (o : Nat)
    (h : fs.get p = some (.file old)) :
    writeData fs p d o = .ok (fs.set p (.file (writeBytes old d o))) ∧
    truncateFile fs p = .ok (fs.set p (.file [])) ∧
    (fs.set p (.file (writeBytes old d o))).get p = some (.file (writeBytes old d o)) ∧
    (∀ q, q ≠ p → (fs.set p (.file (writeBytes old d o))).get q = fs.get q) ∧
    readData fs p o (some d.length) = .ok ((old.drop o).take d.length) ∧ fileSize fs p = .ok old.length := by
  refine ⟨by simp [writeData, h], by simp [truncateFile, h], get_set_same _ _ _,
    fun q hq => get_set_other _ _ _ _ hq, by simp [readData, h], by simp [fileSize, h]⟩

/-- every operation keeps the tree a finite map with ascending unique paths -/
theorem C17_wf_preserved (fs : Fs) (p q : String) (d : List UInt8) (o : Nat) (b : Bool) (hw : WF fs) :
    WF (createFile fs p).2 ∧ WF (deleteFile fs p).2 ∧ WF (createDirectory fs p).2 ∧
    (∀ f, writeData fs p d o = .ok f → WF f) ∧ (∀ f, truncateFile fs p = .ok f → WF f) ∧
    WF (renameFile fs p q).2 ∧ WF (replaceFile fs p q).2 := by
  refine ⟨?_, ?_, ?_, ?_, ?_, ?_, ?_⟩
  · unfold createFile; split <;> (try split) <;> first | exact hw | exact set_wf _ _ _ hw
  · unfold deleteFile; split <;> (try split) <;> first | exact hw | exact del_wf _ _ hw
  · unfold createDirectory; split <;> first | exact hw | exact set_wf _ _ _ hw
  · intro f hf; unfold writeData at hf
    split at hf <;> (try split at hf) <;> simp at hf
    rw [← hf]; exact set_wf _ _ _ hw
  · intro f hf; unfold truncateFile at hf
    split at hf <;> (try split at hf) <;> simp at hf
    rw [← hf]; exact set_wf _ _ _ hw
  · unfold renameFile
    split <;> (try split) <;> (try split) <;> (try split) <;>
      first | exact hw | exact set_wf _ _ _ (del_wf _ _ hw)
  · unfold replaceFile
    split <;> (try split) <;> (try split) <;> (try split) <;>
      first | exact hw | exact set_wf _ _ _ (del_wf _ _ hw)

/-! ### bytes -/

/-- the old content, zero-extended up to the write offset -/
def padded (old : List UInt8) (o : Nat) : List UInt8 :=
  if o > old.length then old ++ List.replicate (o - old.length) 0 else old

theorem padded_len (old : List UInt8) (o : Nat) : o ≤ (padded old o).length := by
  unfold padded
  split
  · simp; omega
  · omega

theorem padded_get (old : List UInt8) (o i : Nat) :
    (padded old o)[i]? = if i < old.length then old[i]? else if i < o then some 0 else none := by
  unfold padded
  split
  · rw [List.getElem?_append]
    split
    · rfl
    · rename_i h1 h2
      by_cases h3 : i < o
      · simp [h3, List.getElem?_replicate]; omega
      · simp [h3, List.getElem?_replicate]; omega
  · rename_i h1
    by_cases h2 : i < old.length
    · simp [h2]
    · have : ¬ i < o := by omega
      simp [h2, this]

/-- byte-wise description of `open(file, "r+b"); seek(o); write(d)` for a non-empty payload -/
theorem write_get (old d : List UInt8) (o i : Nat) (hd : d ≠ []) :
    (writeBytes old d o)[i]? =
      if i < o then (padded old o)[i]?
      else if i < o + d.length then d[i - o]? else (padded old o)[i]? := by
  have hne : d.isEmpty = false := by cases d <;> simp_all
  have hpl := padded_len old o
  have hw : writeBytes old d o = (padded old o).take o ++ d ++ (padded old o).drop (o + d.length) := by
    simp [writeBytes, hne, padded]
  rw [hw, List.append_assoc, List.getElem?_append]
  have hl : ((padded old o).take o).length = o := by simp; omega
  rw [hl]
  by_cases h1 : i < o
  · simp [h1, List.getElem?_take]
  · simp only [h1, if_false]
    rw [List.getElem?_append]
    by_cases h2 : i - o < d.length
    · have : i < o + d.length := by omega
      simp [h2, this]
    · have : ¬ i < o + d.length := by omega
      simp only [h2, this, if_false, List.getElem?_drop]
      congr 1; omega

/-- data written at an offset is read back identically -/
theorem C17_write_read (old d : List UInt8) (o : Nat) (hd : d ≠ []) :
    ((writeBytes old d o).drop o).take d.length = d := by
  apply List.ext_getElem?
  intro i
  rw [List.getElem?_take]
  by_cases h : i < d.length
  · simp only [h, if_true, List.getElem?_drop]
    rw [write_get old d o (o + i) hd]
    have h1 : ¬ o + i < o := by omega
    have h2 : o + i < o + d.length := by omega
    simp [h1, h2]
  · simp only [h, if_false]
    rw [List.getElem?_eq_none (by omega)]

/-- bytes below the offset are untouched -/
theorem C17_write_frame (old d : List UInt8) (o i : Nat) (hi : i < o) (hio : i < old.length) :
    (writeBytes old d o)[i]? = old[i]? := by
  by_cases hd : d = []
  · subst hd; simp [writeBytes]
  · rw [write_get old d o i hd, padded_get]; simp [hi, hio]

/-- bytes beyond the written range are untouched -/
theorem C17_write_frame_after (old d : List UInt8) (o i : Nat) (hi : o + d.length ≤ i) :
    (writeBytes old d o)[i]? = old[i]? := by
  by_cases hd : d = []
  · subst hd; simp [writeBytes]
  · have h1 : ¬ i < o := by omega
    have h2 : ¬ i < o + d.length := by omega
    rw [write_get old d o i hd, padded_get]
    simp only [h1, h2, if_false]
    by_cases h3 : i < old.length
    · simp [h3]
    · simp [h3]

/-- a gap between the old end of file and the offset reads as zero bytes -/
theorem C17_write_gap_zero (old d : List UInt8) (o i : Nat) (hd : d ≠ []) (h1 : old.length ≤ i) (h2 : i < o) :
    (writeBytes old d o)[i]? = some 0 := by
  have h3 : ¬ i < old.length := by omega
  rw [write_get old d o i hd, padded_get]; simp [h2, h3]

/-- a zero-length write changes nothing (in particular it does not extend the file) -/
theorem C17_write_empty (old : List UInt8) (o : Nat) : writeBytes old [] o = old := by
  simp [writeBytes]

/-- non-vacuity: write beyond the end, then inside -/
example : writeBytes [1, 2] [9] 4 = [1, 2, 0, 0, 9] ∧ writeBytes [1, 2, 3] [7, 8] 1 = [1, 7, 8] := by decide

end Cfdp.Fs.C17
