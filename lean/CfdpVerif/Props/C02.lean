import CfdpVerif.Props.C07
import CfdpVerif.Props.C09
import CfdpVerif.Props.C17
/-!
# C02 — every transfer over a fault-free link completes successfully

`C02_unack_delivery` (proved, unbounded in file size, content, segment length and header
configuration): an idle receiver that is handed — once each and in order, one `state_machine` call
per PDU, which is what a fault-free link does with the PDU stream the sender emits
(`C07_metadata_call`, `C07_stream_tiles`, `C07_eof_call`) — the Metadata PDU, the tiles of a file
`F` and the EOF (No error, size `|F|`, checksum of `F`) of an unacknowledged transfer without
closure ends idle, having stored exactly `F` at the destination path, having issued exactly one
Transaction-Finished indication (No error, Data complete, File retained), no fault callback, nothing
queued and no exception.  The proof is an induction over the tiles with the invariant "the
destination file holds the first `k` tiles" (`Receiving`).

`C02_ack_delivery` (proved, same generality): the same for an acknowledged transfer (closure flag
arbitrary) — Metadata, tiles, EOF; the ACK (EOF) is queued; after its retrieval the next call
verifies the checksum, tells the user, queues the Finished PDU (No error, Data complete, File
retained) and waits; the sender's ACK (Finished) ends the transaction: idle, file = `F`, one
indication, no fault, no exception.  The sender's half of the closing handshake is
`C02_source_eof_acked`, `C02_source_finished`, `C02_source_completion`; its PDU stream is C07.

`C02_unack_closure_delivery`: unacknowledged mode with closure requested — as the first theorem, and
exactly one Finished PDU (No error, Data complete, File retained) is queued for the sender.

`C02_end_to_end_unack`: **both models composed** (unacknowledged mode without closure): the sender
model is called and drained `k + 2` times, every PDU it emits is handed to the receiver model in
order; both end idle, the destination file is byte-identical to the source file, no call of either
handler raised, no fault callback on either side.  Uses C07 (the stream), C09 (the checksum does not
depend on the chunk length: the sender computes it with its segment length, the receiver with 4096)
and C17 (filestore).

`C02_end_to_end_ack`: the same composition in acknowledged mode, including the closing handshake
(ACK (EOF) back to the sender, Finished PDU to the sender, ACK (Finished) to the receiver): both idle,
file byte-identical, one successful Transaction-Finished indication on each side, no fault.

Pacing: `C02_dest_empty_call_noop` / `C02_source_empty_call_noop` — a `state_machine()` call without a
PDU, with nothing left to retrieve and no timer run out, changes nothing at all; so the composed
theorems, stated for one call per PDU, hold for every pacing that inserts such calls anywhere.  NOT
covered by a theorem: several PDUs handed to a handler between two retrievals; that is explored end
to end on implementation and model (randomised pacing over the whole configuration cross product),
see MANIFEST / evidence.
-/
set_option linter.unusedSimpArgs false
set_option linter.unusedVariables false

namespace Cfdp.C02

open Cfdp Cfdp.Dest

/-- a PDU header the receiver admits in an unacknowledged transaction from a known sender -/
structure Admissible (env : Env) (rc : RemoteCfg) (h : Hdr) : Prop where
  hdir : h.dir = .toRecv
  hdst : h.dst.val = env.cfg.entityId.val
  hsrc : lookupRemote env.cfg.remotes h.src.val = some rc
  hmode : h.mode = .unack

/-- receiver in the middle of an unacknowledged file transfer: stored content `P`, nothing queued,
no fault so far -/
structure Receiving (d : DestSt) (dst : String) (P : List UInt8) (rc : RemoteCfg) (t : Tid) (cks : Nat)
    (cl : Bool := false) : Prop where
  hbusy : d.state = .busy
  hstep : d.step = .RECEIVING_FILE_DATA
  hready : d.numReady = 0
  hqueue : d.queue = []
  hmode : d.p.conf.mode = .unack
  hname : d.p.fileName = dst
  hfile : d.fs.get dst = some (.file P)
  hprog : d.p.progress = P.length
  hnoEof : d.p.fileSizeEof = none
  hrc : d.p.remoteCfg = some rc
  htid : d.p.tid = some t
  hrej : d.rejects = []
  hcks : d.p.cksType = cks
  hclosure : d.p.closure = cl
  hcancel : d.p.canceled = false
  hmo : d.p.metadataOnly = false
  hflts : d.flts = []
  hfin : d.p.fin = ⟨ccNoError, dcIncomplete, fsRetained, none⟩

/-- state after a tile -/
def afterTile (d : DestSt) (dst : String) (P data : List UInt8) (env : Env) (t : Tid) : DestSt :=
  { d with fs := d.fs.set dst (.file (P ++ data)),
           p := { d.p with progress := P.length + data.length },
           inds := d.inds ++ (if env.cfg.indSegRecv then [.segRecv (some t) P.length data.length] else []) }

/-- **One tile.**  A File Data PDU at the current end of the stored content appends its payload:
the destination file becomes `P ++ data`; nothing is queued, no fault. -/
theorem C02_tile (env : Env) (d : DestSt) (dst : String) (P data : List UInt8) (rc : RemoteCfg) (t : Tid)
    (cks : Nat) (h : Hdr) (cl : Bool) (hr : Receiving d dst P rc t cks cl) (ha : Admissible env rc h) (hd : data ≠ []) :
    stateMachine env (some (.fd h P.length data)) d = .ok () (afterTile d dst P data env t) ∧
    Receiving (afterTile d dst P data env t) dst (P ++ data) rc t cks cl := by
  have hw : Fs.writeBytes P data P.length = P ++ data := by
    have : data.isEmpty = false := by cases data <;> simp_all
    simp [Fs.writeBytes, this]
  have hfin' : d.p.fin.fstat = fsRetained := by rw [hr.hfin]
  constructor
  · cases hi : env.cfg.indSegRecv <;>
    msimp [stateMachine, stateMachineWith, checkInsertedPacket, Pdu.hdr, ha.hdir, ha.hdst, ha.hsrc, Pdu.kind,
      Route.getPacketDestination, hr.hbusy, transmissionMode, hr.hmode, nonIdleFsm,
      fsmAdvancementAfterPacketsWereSent, hr.hqueue, hr.hstep, fsmFromReceiving, handleFdOrEofPdu, handleFdPdu,
      fdIndication, hi, getP, emitInd, hr.htid, fdLostSegments, fdWrite, vfsWriteData, hr.hrej, hr.hname,
      Fs.writeData, hr.hfile, hw, fdAfterWrite, sizeErrOf, modP, hr.hnoEof, hr.hprog, fsmFromWaitingForMetadata,
      fsmFromCheckLimit, fsmFromWaitingForMissingData, fsmFromTransferCompletion, fsmFromSendingFinishedPdu,
      fsmFromWaitingForFinishedAck, afterTile, hr.hfin]
  · exact { hbusy := hr.hbusy, hstep := hr.hstep, hready := hr.hready, hqueue := hr.hqueue, hmode := hr.hmode,
            hname := hr.hname, hfile := by simp [afterTile, Fs.C17.get_set_same],
            hprog := by simp [afterTile], hnoEof := hr.hnoEof, hrc := hr.hrc, htid := hr.htid, hrej := hr.hrej,
            hcks := hr.hcks, hclosure := hr.hclosure, hcancel := hr.hcancel, hmo := hr.hmo, hflts := hr.hflts,
            hfin := hr.hfin }

/-- parameter block after the Metadata PDU -/
def mdParams (h : Hdr) (rc : RemoteCfg) (cks size : Nat) (dname : String) (cl : Bool := false) : Params :=
  { conf := ⟨.toSend, h.mode, h.crc, h.large, h.src, h.dst, h.seq⟩, tid := some ⟨h.src, h.seq⟩,
    remoteCfg := some rc, cksType := cks, closure := cl, fileName := dname, fileSize := some size,
    fin := ⟨ccNoError, dcIncomplete, fsRetained, none⟩ }

/-- state after the Metadata PDU -/
def afterMd (env : Env) (d : DestSt) (h : Hdr) (rc : RemoteCfg) (cks size : Nat) (sname dname : String)
    (msgs : Option (List Msg)) (cl : Bool := false) : DestSt :=
  { d with state := .busy, step := .RECEIVING_FILE_DATA, fs := d.fs.set dname (.file []),
           p := mdParams h rc cks size dname cl,
           inds := d.inds ++ [.mdRecv (some ⟨h.src, h.seq⟩) h.src (some size) (some sname) (some dname) msgs] }

/-- **Metadata.**  An idle receiver that gets the Metadata PDU of an unacknowledged transfer without
closure creates (or truncates) the destination file — given as a file path whose parent exists —
and is ready to receive, with an empty file. -/
theorem C02_metadata (env : Env) (d : DestSt) (h : Hdr) (rc : RemoteCfg) (cks size : Nat)
    (sname dname : String) (msgs : Option (List Msg)) (cl : Bool) (ha : Admissible env rc h)
    (hidle : d.state = .idle) (hq : d.queue = []) (hr : d.numReady = 0) (hrej : d.rejects = [])
    (hfl : d.flts = [])
    (hnd : Fs.isDir d.fs dname = false)
    (hok : (∃ old, d.fs.get dname = some (.file old)) ∨
           (Fs.exists' d.fs dname = false ∧ Fs.parentIsDir d.fs dname = true)) :
    stateMachine env (some (.md h cl cks size (some sname) (some dname) msgs)) d =
      .ok () (afterMd env d h rc cks size sname dname msgs cl) ∧
    Receiving (afterMd env d h rc cks size sname dname msgs cl) dname [] rc ⟨h.src, h.seq⟩ cks cl := by
  constructor
  · rcases hok with ⟨old, hf⟩ | ⟨h1, h2⟩
    · have hex : Fs.exists' d.fs dname = true := by simp [Fs.exists', hf]
      have htr : Fs.truncateFile d.fs dname = .ok (d.fs.set dname (.file [])) := by simp [Fs.truncateFile, hf]
      msimp [stateMachine, stateMachineWith, checkInsertedPacket, Pdu.hdr, ha.hdir, ha.hdst, ha.hsrc, Pdu.kind,
        Route.getPacketDestination, hidle, transmissionMode, idleFsm, startTransaction, modP,
        commonFirstPacketHandler, handleMetadataPacket, getP, initVfsHandling, hnd, hex, htr, emitInd, hr,
        nonIdleFsm, fsmAdvancementAfterPacketsWereSent, hq, fsmFromReceiving, handleFdOrEofPdu,
        fsmFromWaitingForMetadata, fsmFromCheckLimit, fsmFromWaitingForMissingData, fsmFromTransferCompletion,
        fsmFromSendingFinishedPdu, fsmFromWaitingForFinishedAck, afterMd, mdParams, ha.hmode]
    · have hc : Fs.createFile d.fs dname = (Fs.CREATE_SUCCESS, d.fs.set dname (.file [])) := by
        simp [Fs.createFile, h1, h2]
      msimp [stateMachine, stateMachineWith, checkInsertedPacket, Pdu.hdr, ha.hdir, ha.hdst, ha.hsrc, Pdu.kind,
        Route.getPacketDestination, hidle, transmissionMode, idleFsm, startTransaction, modP,
        commonFirstPacketHandler, handleMetadataPacket, getP, initVfsHandling, hnd, h1, hc, emitInd, hr,
        nonIdleFsm, fsmAdvancementAfterPacketsWereSent, hq, fsmFromReceiving, handleFdOrEofPdu,
        fsmFromWaitingForMetadata, fsmFromCheckLimit, fsmFromWaitingForMissingData, fsmFromTransferCompletion,
        fsmFromSendingFinishedPdu, fsmFromWaitingForFinishedAck, afterMd, mdParams, ha.hmode]
  · exact { hbusy := rfl, hstep := rfl, hready := by simp [afterMd, hr], hqueue := by simp [afterMd, hq],
            hmode := by simp [afterMd, mdParams, ha.hmode], hname := rfl,
            hfile := by simp [afterMd, Fs.C17.get_set_same], hprog := rfl, hnoEof := rfl, hrc := rfl,
            htid := rfl, hrej := by simp [afterMd, hrej], hcks := rfl, hclosure := rfl, hcancel := rfl,
            hmo := rfl, hflts := by simp [afterMd, hfl], hfin := rfl }

/-- state after the EOF PDU of a complete transfer -/
def afterEof (env : Env) (d : DestSt) (t : Tid) : DestSt :=
  { d with state := .idle, step := .IDLE, p := {},
           inds := d.inds ++ (if env.cfg.indEofRecv then [.eofRecv t] else []) ++
             (if env.cfg.indFinished
               then [.finished (some t) ⟨ccNoError, dcComplete, fsRetained, none⟩] else []) }

/-- **EOF.**  When everything has been stored, the EOF (No error) whose size is the stored length and
whose checksum is the filestore's checksum of the stored file completes the transfer in that same
call: one Transaction-Finished (No error, Data complete, File retained), handler idle, file
untouched, nothing queued, no fault callback. -/
theorem C02_eof (env : Env) (d : DestSt) (dst : String) (P crc : List UInt8) (rc : RemoteCfg) (t : Tid)
    (cks : Nat) (h : Hdr) (hr : Receiving d dst P rc t cks) (ha : Admissible env rc h)
    (hver : cks = 15 ∨ Fs.calcChecksum d.fs (Checksum.CksType.ofNat cks) dst P.length 4096 = .ok crc) :
    stateMachine env (some (.eof h ccNoError crc P.length none)) d = .ok () (afterEof env d t) := by
  have hnlt : ¬ P.length < P.length := by omega
  rcases hver with hnull | hc
  · cases hi : env.cfg.indEofRecv <;> cases hf : env.cfg.indFinished <;>
    msimp [stateMachine, stateMachineWith, checkInsertedPacket, Pdu.hdr, ha.hdir, ha.hdst, ha.hsrc, Pdu.kind,
      Route.getPacketDestination, hr.hbusy, transmissionMode, hr.hmode, nonIdleFsm,
      fsmAdvancementAfterPacketsWereSent, hr.hqueue, hr.hstep, fsmFromReceiving, handleFdOrEofPdu, handleEofPdu,
      modP, hi, getP, hr.htid, emitInd, handleNoErrorEof, hr.hprog, hnlt, noErrorEofVerify, checksumVerify,
      hr.hcks, hnull, markComplete, fileTransferCompleteTransition, fsmFromWaitingForMetadata, fsmFromCheckLimit,
      fsmFromWaitingForMissingData, fsmFromTransferCompletion, handleTransferCompletion, noticeOfCompletion,
      hr.hcancel, hf, hr.hclosure, resetInternal, fsmFromSendingFinishedPdu, fsmFromWaitingForFinishedAck,
      afterEof, hr.hfin, ccNoError, dtEof]
  · by_cases hnull : cks = 15
    · subst hnull
      cases hi : env.cfg.indEofRecv <;> cases hf : env.cfg.indFinished <;>
      msimp [stateMachine, stateMachineWith, checkInsertedPacket, Pdu.hdr, ha.hdir, ha.hdst, ha.hsrc, Pdu.kind,
        Route.getPacketDestination, hr.hbusy, transmissionMode, hr.hmode, nonIdleFsm,
        fsmAdvancementAfterPacketsWereSent, hr.hqueue, hr.hstep, fsmFromReceiving, handleFdOrEofPdu, handleEofPdu,
        modP, hi, getP, hr.htid, emitInd, handleNoErrorEof, hr.hprog, hnlt, noErrorEofVerify, checksumVerify,
        hr.hcks, markComplete, fileTransferCompleteTransition, fsmFromWaitingForMetadata, fsmFromCheckLimit,
        fsmFromWaitingForMissingData, fsmFromTransferCompletion, handleTransferCompletion, noticeOfCompletion,
        hr.hcancel, hf, hr.hclosure, resetInternal, fsmFromSendingFinishedPdu, fsmFromWaitingForFinishedAck,
        afterEof, hr.hfin, ccNoError, dtEof]
    · cases hi : env.cfg.indEofRecv <;> cases hf : env.cfg.indFinished <;>
      msimp [stateMachine, stateMachineWith, checkInsertedPacket, Pdu.hdr, ha.hdir, ha.hdst, ha.hsrc, Pdu.kind,
        Route.getPacketDestination, hr.hbusy, transmissionMode, hr.hmode, nonIdleFsm,
        fsmAdvancementAfterPacketsWereSent, hr.hqueue, hr.hstep, fsmFromReceiving, handleFdOrEofPdu, handleEofPdu,
        modP, hi, getP, hr.htid, emitInd, handleNoErrorEof, hr.hprog, hnlt, noErrorEofVerify, checksumVerify,
        hr.hcks, hnull, hr.hmo, hr.hname, hc, markComplete, fileTransferCompleteTransition,
        fsmFromWaitingForMetadata, fsmFromCheckLimit,
        fsmFromWaitingForMissingData, fsmFromTransferCompletion, handleTransferCompletion, noticeOfCompletion,
        hr.hcancel, hf, hr.hclosure, resetInternal, fsmFromSendingFinishedPdu, fsmFromWaitingForFinishedAck,
        afterEof, hr.hfin, ccNoError, dtEof]

/-- state after the EOF PDU of a complete transfer with closure requested: the Finished PDU is queued -/
def afterEofClosure (env : Env) (d : DestSt) (t : Tid) : DestSt :=
  { d with state := .idle, step := .IDLE, p := {},
           queue := [mkFin d.p.conf ⟨ccNoError, dcComplete, fsRetained, none⟩], numReady := 1,
           inds := d.inds ++ (if env.cfg.indEofRecv then [.eofRecv t] else []) ++
             (if env.cfg.indFinished
               then [.finished (some t) ⟨ccNoError, dcComplete, fsRetained, none⟩] else []) }

/-- **EOF, closure requested (unacknowledged mode).**  As `C02_eof`, and exactly one Finished PDU
(No error, Data complete, File retained) is queued for the sender; the handler is idle -/
theorem C02_eof_closure (env : Env) (d : DestSt) (dst : String) (P crc : List UInt8) (rc : RemoteCfg) (t : Tid)
    (cks : Nat) (h : Hdr) (hr : Receiving d dst P rc t cks true) (ha : Admissible env rc h)
    (hver : cks = 15 ∨ Fs.calcChecksum d.fs (Checksum.CksType.ofNat cks) dst P.length 4096 = .ok crc) :
    stateMachine env (some (.eof h ccNoError crc P.length none)) d = .ok () (afterEofClosure env d t) := by
  have hnlt : ¬ P.length < P.length := by omega
  rcases hver with hnull | hc
  · cases hi : env.cfg.indEofRecv <;> cases hf : env.cfg.indFinished <;>
    msimp [stateMachine, stateMachineWith, checkInsertedPacket, Pdu.hdr, ha.hdir, ha.hdst, ha.hsrc, Pdu.kind,
      Route.getPacketDestination, hr.hbusy, transmissionMode, hr.hmode, nonIdleFsm,
      fsmAdvancementAfterPacketsWereSent, hr.hqueue, hr.hstep, fsmFromReceiving, handleFdOrEofPdu, handleEofPdu,
      modP, hi, getP, hr.htid, emitInd, handleNoErrorEof, hr.hprog, hnlt, noErrorEofVerify, checksumVerify,
      hr.hcks, hnull, markComplete, fileTransferCompleteTransition, fsmFromWaitingForMetadata, fsmFromCheckLimit,
      fsmFromWaitingForMissingData, fsmFromTransferCompletion, handleTransferCompletion, noticeOfCompletion,
      hr.hcancel, hf, hr.hclosure, resetInternal, fsmFromSendingFinishedPdu, hr.hready, prepareFinishedPdu,
      addPacket, handleFinishedPduSent, fsmFromWaitingForFinishedAck,
      afterEofClosure, hr.hfin, ccNoError, dtEof]
  · by_cases hnull : cks = 15
    · subst hnull
      cases hi : env.cfg.indEofRecv <;> cases hf : env.cfg.indFinished <;>
      msimp [stateMachine, stateMachineWith, checkInsertedPacket, Pdu.hdr, ha.hdir, ha.hdst, ha.hsrc, Pdu.kind,
        Route.getPacketDestination, hr.hbusy, transmissionMode, hr.hmode, nonIdleFsm,
        fsmAdvancementAfterPacketsWereSent, hr.hqueue, hr.hstep, fsmFromReceiving, handleFdOrEofPdu, handleEofPdu,
        modP, hi, getP, hr.htid, emitInd, handleNoErrorEof, hr.hprog, hnlt, noErrorEofVerify, checksumVerify,
        hr.hcks, markComplete, fileTransferCompleteTransition, fsmFromWaitingForMetadata, fsmFromCheckLimit,
        fsmFromWaitingForMissingData, fsmFromTransferCompletion, handleTransferCompletion, noticeOfCompletion,
        hr.hcancel, hf, hr.hclosure, resetInternal, fsmFromSendingFinishedPdu, hr.hready, prepareFinishedPdu,
        addPacket, handleFinishedPduSent, fsmFromWaitingForFinishedAck,
        afterEofClosure, hr.hfin, ccNoError, dtEof]
    · cases hi : env.cfg.indEofRecv <;> cases hf : env.cfg.indFinished <;>
      msimp [stateMachine, stateMachineWith, checkInsertedPacket, Pdu.hdr, ha.hdir, ha.hdst, ha.hsrc, Pdu.kind,
        Route.getPacketDestination, hr.hbusy, transmissionMode, hr.hmode, nonIdleFsm,
        fsmAdvancementAfterPacketsWereSent, hr.hqueue, hr.hstep, fsmFromReceiving, handleFdOrEofPdu, handleEofPdu,
        modP, hi, getP, hr.htid, emitInd, handleNoErrorEof, hr.hprog, hnlt, noErrorEofVerify, checksumVerify,
        hr.hcks, hnull, hr.hmo, hr.hname, hc, markComplete, fileTransferCompleteTransition,
        fsmFromWaitingForMetadata, fsmFromCheckLimit,
        fsmFromWaitingForMissingData, fsmFromTransferCompletion, handleTransferCompletion, noticeOfCompletion,
        hr.hcancel, hf, hr.hclosure, resetInternal, fsmFromSendingFinishedPdu, hr.hready, prepareFinishedPdu,
        addPacket, handleFinishedPduSent, fsmFromWaitingForFinishedAck,
        afterEofClosure, hr.hfin, ccNoError, dtEof]

def isFinished : Ind → Bool
  | .finished .. => true
  | _ => false

/-- feed a list of payloads as File Data PDUs, each at the current end of the stored content -/
def feed (env : Env) (h : Hdr) : List (List UInt8) → Nat → DestSt → Option DestSt
  | [], _, d => some d
  | c :: cs, off, d =>
    match stateMachine env (some (.fd h off c)) d with
    | .ok _ d' => feed env h cs (off + c.length) d'
    | .error _ _ => none

/-- **All tiles, by induction.**  Feeding any list of non-empty payloads in order, each at the offset
where the previous one ended (which is what the sender's tiles are, `C07_stream_tiles`), never
raises and leaves the receiver with exactly their concatenation appended to the stored content. -/
theorem C02_tiles (env : Env) (h : Hdr) (rc : RemoteCfg) (t : Tid) (cks : Nat) (dst : String) (cl : Bool)
    (ha : Admissible env rc h) :
    ∀ (cs : List (List UInt8)) (P : List UInt8) (d : DestSt), (∀ c ∈ cs, c ≠ []) →
      Receiving d dst P rc t cks cl →
      ∃ d', feed env h cs P.length d = some d' ∧ Receiving d' dst (P ++ cs.flatten) rc t cks cl ∧
        (∀ q, q ≠ dst → d'.fs.get q = d.fs.get q) ∧ d'.queue = [] ∧ d'.flts = [] ∧
        d'.inds.filter isFinished = d.inds.filter isFinished ∧ d'.p.conf = d.p.conf := by
  intro cs
  induction cs with
  | nil => intro P d _ hr; exact ⟨d, rfl, by simpa using hr, fun _ _ => rfl, hr.hqueue, hr.hflts, rfl, rfl⟩
  | cons c cs ih =>
    intro P d hne hr
    have hc : c ≠ [] := hne c (by simp)
    obtain ⟨hcall, hr'⟩ := C02_tile env d dst P c rc t cks h cl hr ha hc
    obtain ⟨d', hf, hR, hother, hq, hfl, hfin, hcf⟩ := ih (P ++ c) _ (fun x hx => hne x (by simp [hx])) hr'
    refine ⟨d', ?_, ?_, ?_, hq, hfl, ?_, by rw [hcf]; rfl⟩
    · simp only [feed, hcall]
      simpa using hf
    · simpa [List.append_assoc] using hR
    · intro q hq'
      rw [hother q hq']
      simp [afterTile, Fs.C17.get_set_other _ _ _ _ hq']
    · rw [hfin]
      simp only [afterTile]
      split <;> simp [isFinished]

/-- **Delivery over a fault-free link, unacknowledged mode without closure.**  For every file content
`F`, every way of cutting it into non-empty consecutive pieces `cs` (the sender's tiles for any
segment length ≥ 1), every header configuration the receiver admits, checksum type and indication
setting: Metadata, the pieces in order, EOF — one call each — end with

* the receiver idle, nothing queued, no fault callback, no exception in any call;
* the destination file equal to `F`, every other path as before;
* exactly one Transaction-Finished indication, reporting No error / Data complete / File retained
  (when that indication is enabled). -/
theorem C02_unack_delivery (env : Env) (d0 : DestSt) (h : Hdr) (rc : RemoteCfg) (cks : Nat)
    (sname dname : String) (msgs : Option (List Msg)) (F crc : List UInt8) (cs : List (List UInt8))
    (ha : Admissible env rc h)
    (hidle : d0.state = .idle) (hq : d0.queue = []) (hr : d0.numReady = 0) (hrej : d0.rejects = [])
    (hfl : d0.flts = []) (hnd : Fs.isDir d0.fs dname = false)
    (hok : (∃ old, d0.fs.get dname = some (.file old)) ∨
           (Fs.exists' d0.fs dname = false ∧ Fs.parentIsDir d0.fs dname = true))
    (hcs : cs.flatten = F) (hne : ∀ c ∈ cs, c ≠ [])
    (hcrc : cks = 15 ∨ ∀ fs : Fs, fs.get dname = some (.file F) →
      Fs.calcChecksum fs (Checksum.CksType.ofNat cks) dname F.length 4096 = .ok crc) :
    ∃ d1 d2 d3,
      stateMachine env (some (.md h false cks F.length (some sname) (some dname) msgs)) d0 = .ok () d1 ∧
      feed env h cs 0 d1 = some d2 ∧
      stateMachine env (some (.eof h ccNoError crc F.length none)) d2 = .ok () d3 ∧
      d3.state = .idle ∧ d3.queue = [] ∧ d3.flts = [] ∧
      d3.fs.get dname = some (.file F) ∧ (∀ q, q ≠ dname → d3.fs.get q = d0.fs.get q) ∧
      d3.inds.filter isFinished = d0.inds.filter isFinished ++
        (if env.cfg.indFinished
          then [.finished (some ⟨h.src, h.seq⟩) ⟨ccNoError, dcComplete, fsRetained, none⟩] else []) := by
  obtain ⟨hmd, hR1⟩ := C02_metadata env d0 h rc cks F.length sname dname msgs false ha hidle hq hr hrej hfl hnd hok
  obtain ⟨d2, hfeed, hR2, hother, hq2, hfl2, hfin2, _⟩ := C02_tiles env h rc _ cks dname false ha cs [] _ hne hR1
  simp only [List.nil_append, hcs, List.length_nil] at hfeed hR2
  have hver : cks = 15 ∨ Fs.calcChecksum d2.fs (Checksum.CksType.ofNat cks) dname F.length 4096 = .ok crc := by
    rcases hcrc with h1 | h1
    · exact Or.inl h1
    · exact Or.inr (h1 d2.fs hR2.hfile)
  have heof := C02_eof env d2 dname F crc rc _ cks h hR2 ha hver
  refine ⟨_, d2, _, hmd, hfeed, heof, rfl, ?_, ?_, ?_, ?_, ?_⟩
  · simp [afterEof, hq2]
  · simp [afterEof, hfl2]
  · simp [afterEof, hR2.hfile]
  · intro q hq'
    simp only [afterEof]
    rw [hother q hq']
    simp [afterMd, Fs.C17.get_set_other _ _ _ _ hq']
  · simp only [afterEof, List.filter_append, hfin2]
    have h1 : (afterMd env d0 h rc cks F.length sname dname msgs).inds.filter isFinished =
        d0.inds.filter isFinished := by simp [afterMd, isFinished]
    rw [h1]
    cases env.cfg.indEofRecv <;> cases env.cfg.indFinished <;> simp [isFinished]

/-- **Delivery over a fault-free link, unacknowledged mode with closure requested.**  As
`C02_unack_delivery`; in addition exactly one Finished PDU (No error, Data complete, File retained)
is queued for the sender when the EOF completes the transfer. -/
theorem C02_unack_closure_delivery (env : Env) (d0 : DestSt) (h : Hdr) (rc : RemoteCfg) (cks : Nat)
    (sname dname : String) (msgs : Option (List Msg)) (F crc : List UInt8) (cs : List (List UInt8))
    (ha : Admissible env rc h)
    (hidle : d0.state = .idle) (hq : d0.queue = []) (hr : d0.numReady = 0) (hrej : d0.rejects = [])
    (hfl : d0.flts = []) (hnd : Fs.isDir d0.fs dname = false)
    (hok : (∃ old, d0.fs.get dname = some (.file old)) ∨
           (Fs.exists' d0.fs dname = false ∧ Fs.parentIsDir d0.fs dname = true))
    (hcs : cs.flatten = F) (hne : ∀ c ∈ cs, c ≠ [])
    (hcrc : cks = 15 ∨ ∀ fs : Fs, fs.get dname = some (.file F) →
      Fs.calcChecksum fs (Checksum.CksType.ofNat cks) dname F.length 4096 = .ok crc) :
    ∃ d1 d2 d3,
      stateMachine env (some (.md h true cks F.length (some sname) (some dname) msgs)) d0 = .ok () d1 ∧
      feed env h cs 0 d1 = some d2 ∧
      stateMachine env (some (.eof h ccNoError crc F.length none)) d2 = .ok () d3 ∧
      d3.state = .idle ∧ d3.queue = [mkFin d1.p.conf ⟨ccNoError, dcComplete, fsRetained, none⟩] ∧ d3.flts = [] ∧
      d3.fs.get dname = some (.file F) ∧ (∀ q, q ≠ dname → d3.fs.get q = d0.fs.get q) ∧
      d3.inds.filter isFinished = d0.inds.filter isFinished ++
        (if env.cfg.indFinished
          then [.finished (some ⟨h.src, h.seq⟩) ⟨ccNoError, dcComplete, fsRetained, none⟩] else []) := by
  obtain ⟨hmd, hR1⟩ := C02_metadata env d0 h rc cks F.length sname dname msgs true ha hidle hq hr hrej hfl hnd hok
  obtain ⟨d2, hfeed, hR2, hother, hq2, hfl2, hfin2, hconf2⟩ := C02_tiles env h rc _ cks dname true ha cs [] _ hne hR1
  simp only [List.nil_append, hcs, List.length_nil] at hfeed hR2
  have hver : cks = 15 ∨ Fs.calcChecksum d2.fs (Checksum.CksType.ofNat cks) dname F.length 4096 = .ok crc := by
    rcases hcrc with h1 | h1
    · exact Or.inl h1
    · exact Or.inr (h1 d2.fs hR2.hfile)
  have heof := C02_eof_closure env d2 dname F crc rc _ cks h hR2 ha hver
  refine ⟨_, d2, _, hmd, hfeed, heof, rfl, ?_, ?_, ?_, ?_, ?_⟩
  · simp [afterEofClosure, hconf2]
  · simp [afterEofClosure, hfl2]
  · simp [afterEofClosure, hR2.hfile]
  · intro q hq'
    simp only [afterEofClosure]
    rw [hother q hq']
    simp [afterMd, Fs.C17.get_set_other _ _ _ _ hq']
  · simp only [afterEofClosure, List.filter_append, hfin2]
    have h1 : (afterMd env d0 h rc cks F.length sname dname msgs true).inds.filter isFinished =
        d0.inds.filter isFinished := by simp [afterMd, isFinished]
    rw [h1]
    cases env.cfg.indEofRecv <;> cases env.cfg.indFinished <;> simp [isFinished]

/-! ## Acknowledged mode (receiver side) -/

/-- a PDU header the receiver admits in an acknowledged transaction from a known sender -/
structure AdmissibleA (env : Env) (rc : RemoteCfg) (h : Hdr) : Prop where
  hdir : h.dir = .toRecv
  hdst : h.dst.val = env.cfg.entityId.val
  hsrc : lookupRemote env.cfg.remotes h.src.val = some rc
  hmode : h.mode = .ack

/-- receiver in the middle of an acknowledged file transfer without losses: stored content `P`,
lost segment tracker empty, nothing queued, no fault so far -/
structure ReceivingA (d : DestSt) (dst : String) (P : List UInt8) (rc : RemoteCfg) (t : Tid) (cks : Nat)
    (conf : Hdr) : Prop where
  hbusy : d.state = .busy
  hstep : d.step = .RECEIVING_FILE_DATA
  hready : d.numReady = 0
  hqueue : d.queue = []
  hconf : d.p.conf = conf
  hmode : conf.mode = .ack
  hname : d.p.fileName = dst
  hfile : d.fs.get dst = some (.file P)
  hprog : d.p.progress = P.length
  hnoEof : d.p.fileSizeEof = none
  hrc : d.p.remoteCfg = some rc
  htid : d.p.tid = some t
  hrej : d.rejects = []
  hcks : d.p.cksType = cks
  hcancel : d.p.canceled = false
  hmo : d.p.metadataOnly = false
  hflts : d.flts = []
  hfin : d.p.fin = ⟨ccNoError, dcIncomplete, fsRetained, none⟩
  htrk : d.p.trk = []
  hlastE : d.p.lastEnd = P.length
  hlastS : d.p.lastStart ≤ P.length
  hmm : d.p.metadataMissing = false
  hdef : d.p.deferredActive = false

def tileP (p : Params) (P data : List UInt8) : Params :=
  { p with progress := P.length + data.length, lastStart := P.length, lastEnd := P.length + data.length }

/-- state after a tile (acknowledged mode) -/
def afterTileA (d : DestSt) (dst : String) (P data : List UInt8) (env : Env) (t : Tid) : DestSt :=
  { d with fs := d.fs.set dst (.file (P ++ data)), p := tileP d.p P data,
           inds := d.inds ++ (if env.cfg.indSegRecv then [.segRecv (some t) P.length data.length] else []) }

theorem C02_tile_ack (env : Env) (d : DestSt) (dst : String) (P data : List UInt8) (rc : RemoteCfg) (t : Tid)
    (cks : Nat) (conf h : Hdr) (hr : ReceivingA d dst P rc t cks conf) (ha : AdmissibleA env rc h) (hd : data ≠ []) :
    stateMachine env (some (.fd h P.length data)) d = .ok () (afterTileA d dst P data env t) ∧
    ReceivingA (afterTileA d dst P data env t) dst (P ++ data) rc t cks conf := by
  have hw : Fs.writeBytes P data P.length = P ++ data := by
    have : data.isEmpty = false := by cases data <;> simp_all
    simp [Fs.writeBytes, this]
  have hlen : 0 < data.length := by cases data <;> simp_all
  have hng : ¬ P.length > d.p.lastEnd := by simp [hr.hlastE]
  have hge : P.length ≥ d.p.lastEnd := by simp [hr.hlastE]
  have hnle : ¬ P.length + data.length ≤ P.length := by omega
  have hm : d.p.conf.mode = .ack := by rw [hr.hconf]; exact hr.hmode
  constructor
  · cases hi : env.cfg.indSegRecv <;>
    msimp [stateMachine, stateMachineWith, checkInsertedPacket, Pdu.hdr, ha.hdir, ha.hdst, ha.hsrc, Pdu.kind,
      Route.getPacketDestination, hr.hbusy, transmissionMode, hm, nonIdleFsm,
      fsmAdvancementAfterPacketsWereSent, hr.hqueue, hr.hstep, fsmFromReceiving, handleFdOrEofPdu, handleFdPdu,
      fdIndication, hi, getP, emitInd, hr.htid, fdLostSegments, lostSegmentHandling, hng, hge, hnle,
      fdWrite, vfsWriteData, hr.hrej, hr.hname,
      Fs.writeData, hr.hfile, hw, fdAfterWrite, sizeErrOf, modP, hr.hnoEof, hr.hprog, fsmFromWaitingForMetadata,
      fsmFromCheckLimit, fsmFromWaitingForMissingData, fsmFromTransferCompletion, fsmFromSendingFinishedPdu,
      fsmFromWaitingForFinishedAck, afterTileA, tileP, hr.hfin]
  · exact { hbusy := hr.hbusy, hstep := hr.hstep, hready := hr.hready, hqueue := hr.hqueue, hconf := hr.hconf,
            hmode := hr.hmode,
            hname := hr.hname, hfile := by simp [afterTileA, Fs.C17.get_set_same],
            hprog := by simp [afterTileA, tileP], hnoEof := hr.hnoEof, hrc := hr.hrc, htid := hr.htid, hrej := hr.hrej,
            hcks := hr.hcks, hcancel := hr.hcancel, hmo := hr.hmo, hflts := hr.hflts,
            hfin := hr.hfin, htrk := hr.htrk, hlastE := by simp [afterTileA, tileP],
            hlastS := by simp [afterTileA, tileP], hmm := hr.hmm, hdef := hr.hdef }

/-- parameter block after the Metadata PDU (acknowledged mode; closure flag as received) -/
def mdParamsA (h : Hdr) (rc : RemoteCfg) (closure : Bool) (cks size : Nat) (dname : String) : Params :=
  { conf := ⟨.toSend, h.mode, h.crc, h.large, h.src, h.dst, h.seq⟩, tid := some ⟨h.src, h.seq⟩,
    remoteCfg := some rc, cksType := cks, closure := closure, fileName := dname, fileSize := some size,
    fin := ⟨ccNoError, dcIncomplete, fsRetained, none⟩ }

def afterMdA (env : Env) (d : DestSt) (h : Hdr) (rc : RemoteCfg) (closure : Bool) (cks size : Nat)
    (sname dname : String) (msgs : Option (List Msg)) : DestSt :=
  { d with state := .busy, step := .RECEIVING_FILE_DATA, fs := d.fs.set dname (.file []),
           p := mdParamsA h rc closure cks size dname,
           inds := d.inds ++ [.mdRecv (some ⟨h.src, h.seq⟩) h.src (some size) (some sname) (some dname) msgs] }

theorem C02_metadata_ack (env : Env) (d : DestSt) (h : Hdr) (rc : RemoteCfg) (closure : Bool) (cks size : Nat)
    (sname dname : String) (msgs : Option (List Msg)) (ha : AdmissibleA env rc h)
    (hidle : d.state = .idle) (hq : d.queue = []) (hr : d.numReady = 0) (hrej : d.rejects = [])
    (hfl : d.flts = [])
    (hnd : Fs.isDir d.fs dname = false)
    (hok : (∃ old, d.fs.get dname = some (.file old)) ∨
           (Fs.exists' d.fs dname = false ∧ Fs.parentIsDir d.fs dname = true)) :
    stateMachine env (some (.md h closure cks size (some sname) (some dname) msgs)) d =
      .ok () (afterMdA env d h rc closure cks size sname dname msgs) ∧
    ReceivingA (afterMdA env d h rc closure cks size sname dname msgs) dname [] rc ⟨h.src, h.seq⟩ cks
      ⟨.toSend, h.mode, h.crc, h.large, h.src, h.dst, h.seq⟩ := by
  constructor
  · rcases hok with ⟨old, hf⟩ | ⟨h1, h2⟩
    · have hex : Fs.exists' d.fs dname = true := by simp [Fs.exists', hf]
      have htr : Fs.truncateFile d.fs dname = .ok (d.fs.set dname (.file [])) := by simp [Fs.truncateFile, hf]
      msimp [stateMachine, stateMachineWith, checkInsertedPacket, Pdu.hdr, ha.hdir, ha.hdst, ha.hsrc, Pdu.kind,
        Route.getPacketDestination, hidle, transmissionMode, idleFsm, startTransaction, modP,
        commonFirstPacketHandler, handleMetadataPacket, getP, initVfsHandling, hnd, hex, htr, emitInd, hr,
        nonIdleFsm, fsmAdvancementAfterPacketsWereSent, hq, fsmFromReceiving, handleFdOrEofPdu,
        fsmFromWaitingForMetadata, fsmFromCheckLimit, fsmFromWaitingForMissingData, fsmFromTransferCompletion,
        fsmFromSendingFinishedPdu, fsmFromWaitingForFinishedAck, afterMdA, mdParamsA, ha.hmode]
    · have hc : Fs.createFile d.fs dname = (Fs.CREATE_SUCCESS, d.fs.set dname (.file [])) := by
        simp [Fs.createFile, h1, h2]
      msimp [stateMachine, stateMachineWith, checkInsertedPacket, Pdu.hdr, ha.hdir, ha.hdst, ha.hsrc, Pdu.kind,
        Route.getPacketDestination, hidle, transmissionMode, idleFsm, startTransaction, modP,
        commonFirstPacketHandler, handleMetadataPacket, getP, initVfsHandling, hnd, h1, hc, emitInd, hr,
        nonIdleFsm, fsmAdvancementAfterPacketsWereSent, hq, fsmFromReceiving, handleFdOrEofPdu,
        fsmFromWaitingForMetadata, fsmFromCheckLimit, fsmFromWaitingForMissingData, fsmFromTransferCompletion,
        fsmFromSendingFinishedPdu, fsmFromWaitingForFinishedAck, afterMdA, mdParamsA, ha.hmode]
  · exact { hbusy := rfl, hstep := rfl, hready := by simp [afterMdA, hr], hqueue := by simp [afterMdA, hq],
            hconf := rfl, hmode := ha.hmode, hname := rfl,
            hfile := by simp [afterMdA, Fs.C17.get_set_same], hprog := rfl, hnoEof := rfl, hrc := rfl,
            htid := rfl, hrej := by simp [afterMdA, hrej], hcks := rfl, hcancel := rfl,
            hmo := rfl, hflts := by simp [afterMdA, hfl], hfin := rfl, htrk := rfl, hlastE := rfl,
            hlastS := by simp [afterMdA, mdParamsA], hmm := rfl, hdef := rfl }

def feedA := @feed

theorem C02_tiles_ack (env : Env) (h conf : Hdr) (rc : RemoteCfg) (t : Tid) (cks : Nat) (dst : String)
    (ha : AdmissibleA env rc h) :
    ∀ (cs : List (List UInt8)) (P : List UInt8) (d : DestSt), (∀ c ∈ cs, c ≠ []) →
      ReceivingA d dst P rc t cks conf →
      ∃ d', feed env h cs P.length d = some d' ∧ ReceivingA d' dst (P ++ cs.flatten) rc t cks conf ∧
        (∀ q, q ≠ dst → d'.fs.get q = d.fs.get q) ∧
        d'.inds.filter isFinished = d.inds.filter isFinished := by
  intro cs
  induction cs with
  | nil => intro P d _ hr; exact ⟨d, rfl, by simpa using hr, fun _ _ => rfl, rfl⟩
  | cons c cs ih =>
    intro P d hne hr
    have hc : c ≠ [] := hne c (by simp)
    obtain ⟨hcall, hr'⟩ := C02_tile_ack env d dst P c rc t cks conf h hr ha hc
    obtain ⟨d', hf, hR, hother, hfin⟩ := ih (P ++ c) _ (fun x hx => hne x (by simp [hx])) hr'
    refine ⟨d', ?_, ?_, ?_, ?_⟩
    · simp only [feed, hcall]
      simpa using hf
    · simpa [List.append_assoc] using hR
    · intro q hq'
      rw [hother q hq']
      simp [afterTileA, Fs.C17.get_set_other _ _ _ _ hq']
    · rw [hfin]
      simp only [afterTileA]
      split <;> simp [isFinished]

def eofP (p : Params) (crc : List UInt8) (size : Nat) : Params :=
  { p with crc32 := crc, fileSizeEof := some size }

/-- state after the EOF PDU: the ACK of the EOF is queued -/
def afterEofA (env : Env) (d : DestSt) (t : Tid) (crc : List UInt8) (size : Nat) : DestSt :=
  { d with step := .SENDING_EOF_ACK_PDU, p := eofP d.p crc size,
           queue := [mkAck d.p.conf dtEof ccNoError tsActive], numReady := 1,
           inds := d.inds ++ (if env.cfg.indEofRecv then [.eofRecv t] else []) }

/-- **EOF (acknowledged mode).**  With everything stored, the EOF (No error) is acknowledged: exactly
one ACK (EOF) PDU is queued; the file is untouched, no fault -/
theorem C02_eof_ack (env : Env) (d : DestSt) (dst : String) (P crc : List UInt8) (rc : RemoteCfg) (t : Tid)
    (cks : Nat) (conf h : Hdr) (hr : ReceivingA d dst P rc t cks conf) (ha : AdmissibleA env rc h) :
    stateMachine env (some (.eof h ccNoError crc P.length none)) d = .ok () (afterEofA env d t crc P.length) := by
  have hnlt : ¬ P.length < P.length := by omega
  have hngt : ¬ P.length > P.length := by omega
  have hm : d.p.conf.mode = .ack := by rw [hr.hconf]; exact hr.hmode
  cases hi : env.cfg.indEofRecv <;>
  msimp [stateMachine, stateMachineWith, checkInsertedPacket, Pdu.hdr, ha.hdir, ha.hdst, ha.hsrc, Pdu.kind,
    Route.getPacketDestination, hr.hbusy, transmissionMode, hm, nonIdleFsm,
    fsmAdvancementAfterPacketsWereSent, hr.hqueue, hr.hstep, fsmFromReceiving, handleFdOrEofPdu, handleEofPdu,
    modP, hi, getP, hr.htid, emitInd, handleNoErrorEof, hr.hprog, hnlt, hngt, noErrorEofVerify,
    fileTransferCompleteTransition, prepareEofAckPacket, addPacket, hr.hready,
    fsmFromWaitingForMetadata, fsmFromCheckLimit,
    fsmFromWaitingForMissingData, fsmFromTransferCompletion, fsmFromSendingFinishedPdu, fsmFromWaitingForFinishedAck,
    afterEofA, eofP, hr.hfin, ccNoError, dtEof]

def finP (p : Params) (now ms : Nat) : Params :=
  { p with fin := ⟨ccNoError, dcComplete, fsRetained, none⟩, ackTimer := some ⟨now, ms⟩, ackCounter := 0 }

/-- state after the call that follows the retrieval of the ACK (EOF): checksum verified, user told,
Finished PDU queued, waiting for its ACK -/
def afterVerifyA (env : Env) (d : DestSt) (t : Tid) (rc : RemoteCfg) : DestSt :=
  { d with step := .WAITING_FOR_FINISHED_ACK, p := finP d.p env.now rc.ackMs,
           queue := [mkFin d.p.conf ⟨ccNoError, dcComplete, fsRetained, none⟩], numReady := 1,
           inds := d.inds ++ (if env.cfg.indFinished
             then [.finished (some t) ⟨ccNoError, dcComplete, fsRetained, none⟩] else []) }

/-- the receiver after the EOF was acknowledged and the ACK retrieved by the user -/
structure Acked (d : DestSt) (dst : String) (F crc : List UInt8) (rc : RemoteCfg) (t : Tid) (cks : Nat)
    (conf : Hdr) : Prop where
  hbusy : d.state = .busy
  hstep : d.step = .SENDING_EOF_ACK_PDU
  hready : d.numReady = 0
  hqueue : d.queue = []
  hconf : d.p.conf = conf
  hmode : conf.mode = .ack
  hname : d.p.fileName = dst
  hfile : d.fs.get dst = some (.file F)
  hprog : d.p.progress = F.length
  hcrc : d.p.crc32 = crc
  hrc : d.p.remoteCfg = some rc
  htid : d.p.tid = some t
  hcks : d.p.cksType = cks
  hcancel : d.p.canceled = false
  hmo : d.p.metadataOnly = false
  hfin : d.p.fin = ⟨ccNoError, dcIncomplete, fsRetained, none⟩
  htrk : d.p.trk = []
  hmm : d.p.metadataMissing = false

/-- **Verification and Finished PDU.**  The next call verifies the checksum of the stored file
against the EOF's, reports the completed transaction to the user (No error, Data complete, File
retained), queues exactly one Finished PDU with those values and starts waiting for its ACK -/
theorem C02_verify_ack (env : Env) (d : DestSt) (dst : String) (F crc : List UInt8) (rc : RemoteCfg) (t : Tid)
    (cks : Nat) (conf : Hdr) (hr : Acked d dst F crc rc t cks conf) (hms : rc.ackMs ≠ 0)
    (hver : cks = 15 ∨ Fs.calcChecksum d.fs (Checksum.CksType.ofNat cks) dst F.length 4096 = .ok crc) :
    stateMachine env none d = .ok () (afterVerifyA env d t rc) := by
  unfold stateMachine
  generalize (stateMachineWith env none (stateMachineWith env none (throw Err.recursionError))) = rec
  have hm : d.p.conf.mode = .ack := by rw [hr.hconf]; exact hr.hmode
  rcases hver with hnull | hc
  · cases hf : env.cfg.indFinished <;>
    msimp [stateMachineWith, hr.hbusy, nonIdleFsm, fsmAdvancementAfterPacketsWereSent, hr.hqueue,
      hr.hstep, hr.hcancel, hr.htrk, hr.hmm, checksumVerify, hr.hcks, hnull, markComplete, modP,
      fsmFromReceiving, fsmFromWaitingForMetadata, fsmFromCheckLimit, fsmFromWaitingForMissingData,
      fsmFromTransferCompletion, handleTransferCompletion, noticeOfCompletion, hf, getP, emitInd, hr.htid,
      transmissionMode, hm, fsmFromSendingFinishedPdu, hr.hready, prepareFinishedPdu, addPacket,
      handleFinishedPduSent, startPositiveAckProcedure, hr.hrc, fsmFromWaitingForFinishedAck,
      handleWaitingForFinishedAck, handlePositiveAckProcedures, Timer.timedOut, hms, afterVerifyA, finP, hr.hfin]
  · by_cases hnull : cks = 15
    · cases hf : env.cfg.indFinished <;>
      msimp [stateMachineWith, hr.hbusy, nonIdleFsm, fsmAdvancementAfterPacketsWereSent, hr.hqueue,
        hr.hstep, hr.hcancel, hr.htrk, hr.hmm, checksumVerify, hr.hcks, hnull, markComplete, modP,
        fsmFromReceiving, fsmFromWaitingForMetadata, fsmFromCheckLimit, fsmFromWaitingForMissingData,
        fsmFromTransferCompletion, handleTransferCompletion, noticeOfCompletion, hf, getP, emitInd, hr.htid,
        transmissionMode, hm, fsmFromSendingFinishedPdu, hr.hready, prepareFinishedPdu, addPacket,
        handleFinishedPduSent, startPositiveAckProcedure, hr.hrc, fsmFromWaitingForFinishedAck,
        handleWaitingForFinishedAck, handlePositiveAckProcedures, Timer.timedOut, hms, afterVerifyA, finP, hr.hfin]
    · cases hf : env.cfg.indFinished <;>
      msimp [stateMachineWith, hr.hbusy, nonIdleFsm, fsmAdvancementAfterPacketsWereSent, hr.hqueue,
        hr.hstep, hr.hcancel, hr.htrk, hr.hmm, checksumVerify, hr.hcks, hnull, hr.hmo, hr.hname, hr.hprog, hc,
        hr.hcrc, markComplete, modP,
        fsmFromReceiving, fsmFromWaitingForMetadata, fsmFromCheckLimit, fsmFromWaitingForMissingData,
        fsmFromTransferCompletion, handleTransferCompletion, noticeOfCompletion, hf, getP, emitInd, hr.htid,
        transmissionMode, hm, fsmFromSendingFinishedPdu, hr.hready, prepareFinishedPdu, addPacket,
        handleFinishedPduSent, startPositiveAckProcedure, hr.hrc, fsmFromWaitingForFinishedAck,
        handleWaitingForFinishedAck, handlePositiveAckProcedures, Timer.timedOut, hms, afterVerifyA, finP, hr.hfin]

/-- **ACK (Finished).**  Once the Finished PDU has been retrieved, the sender's ACK of it ends the
transaction: the handler is idle -/
theorem C02_finished_acked (env : Env) (d : DestSt) (rc : RemoteCfg) (h : Hdr) (cond ts : Nat)
    (ha : AdmissibleA env rc h) (hb : d.state = .busy) (hstep : d.step = .WAITING_FOR_FINISHED_ACK)
    (hq : d.queue = []) (hm : d.p.conf.mode = .ack) :
    stateMachine env (some (.ack h dtFinished cond ts)) d =
      .ok () { d with state := .idle, step := .IDLE, p := {} } := by
  msimp [stateMachine, stateMachineWith, checkInsertedPacket, Pdu.hdr, ha.hdir, ha.hdst, ha.hsrc, Pdu.kind,
    dtFinished, dtEof, Route.getPacketDestination, hb, transmissionMode, hm, nonIdleFsm,
    fsmAdvancementAfterPacketsWereSent, hq, hstep, fsmFromReceiving, fsmFromWaitingForMetadata,
    fsmFromCheckLimit, fsmFromWaitingForMissingData, fsmFromTransferCompletion, fsmFromSendingFinishedPdu,
    fsmFromWaitingForFinishedAck, handleWaitingForFinishedAck, resetInternal]

/-- the user retrieves everything that is queued -/
def drained (d : DestSt) : DestSt := { d with queue := [], numReady := 0 }

/-- **Delivery over a fault-free link, acknowledged mode** (receiver side; closure flag arbitrary).
For every file content `F`, every way of cutting it into non-empty consecutive pieces, every header
configuration the receiver admits, checksum type and indication setting: Metadata, the pieces in
order, EOF — then the user retrieves the ACK (EOF), the next call verifies and queues the Finished
PDU, the user retrieves it, the sender's ACK (Finished) arrives — end with

* the receiver idle, nothing queued, no fault callback, no exception in any call;
* the destination file equal to `F`, every other path as before;
* exactly one ACK (EOF) and one Finished PDU (No error, Data complete, File retained) emitted;
* exactly one Transaction-Finished indication with the same three values (when enabled). -/
theorem C02_ack_delivery (env env2 env3 : Env) (d0 : DestSt) (h hack : Hdr) (rc : RemoteCfg) (closure : Bool)
    (cks : Nat) (sname dname : String) (msgs : Option (List Msg)) (F crc : List UInt8) (cs : List (List UInt8))
    (cond ts : Nat)
    (ha : AdmissibleA env rc h) (ha3 : AdmissibleA env3 rc hack) (hms : rc.ackMs ≠ 0)
    (hidle : d0.state = .idle) (hq : d0.queue = []) (hr : d0.numReady = 0) (hrej : d0.rejects = [])
    (hfl : d0.flts = []) (hnd : Fs.isDir d0.fs dname = false)
    (hok : (∃ old, d0.fs.get dname = some (.file old)) ∨
           (Fs.exists' d0.fs dname = false ∧ Fs.parentIsDir d0.fs dname = true))
    (hcs : cs.flatten = F) (hne : ∀ c ∈ cs, c ≠ [])
    (hcrc : cks = 15 ∨ ∀ fs : Fs, fs.get dname = some (.file F) →
      Fs.calcChecksum fs (Checksum.CksType.ofNat cks) dname F.length 4096 = .ok crc) :
    ∃ d1 d2 d3 d4 d5,
      stateMachine env (some (.md h closure cks F.length (some sname) (some dname) msgs)) d0 = .ok () d1 ∧
      feed env h cs 0 d1 = some d2 ∧
      stateMachine env (some (.eof h ccNoError crc F.length none)) d2 = .ok () d3 ∧
      d3.queue = [mkAck d1.p.conf dtEof ccNoError tsActive] ∧
      stateMachine env2 none (drained d3) = .ok () d4 ∧
      d4.queue = [mkFin d1.p.conf ⟨ccNoError, dcComplete, fsRetained, none⟩] ∧
      stateMachine env3 (some (.ack hack dtFinished cond ts)) (drained d4) = .ok () d5 ∧
      d5.state = .idle ∧ d5.queue = [] ∧ d5.flts = [] ∧
      d5.fs.get dname = some (.file F) ∧ (∀ q, q ≠ dname → d5.fs.get q = d0.fs.get q) ∧
      d5.inds.filter isFinished = d0.inds.filter isFinished ++
        (if env2.cfg.indFinished
          then [.finished (some ⟨h.src, h.seq⟩) ⟨ccNoError, dcComplete, fsRetained, none⟩] else []) := by
  obtain ⟨hmd, hR1⟩ := C02_metadata_ack env d0 h rc closure cks F.length sname dname msgs ha hidle hq hr hrej hfl hnd hok
  obtain ⟨d2, hfeed, hR2, hother, hfin2⟩ := C02_tiles_ack env h _ rc _ cks dname ha cs [] _ hne hR1
  simp only [List.nil_append, hcs, List.length_nil] at hfeed hR2
  have heof := C02_eof_ack env d2 dname F crc rc _ cks _ h hR2 ha
  -- after the user retrieved the ACK (EOF)
  have hA : Acked (drained (afterEofA env d2 ⟨h.src, h.seq⟩ crc F.length)) dname F crc rc ⟨h.src, h.seq⟩ cks
      ⟨.toSend, h.mode, h.crc, h.large, h.src, h.dst, h.seq⟩ :=
    { hbusy := hR2.hbusy, hstep := rfl, hready := rfl, hqueue := rfl, hconf := hR2.hconf, hmode := hR2.hmode,
      hname := hR2.hname, hfile := hR2.hfile, hprog := hR2.hprog, hcrc := rfl, hrc := hR2.hrc, htid := hR2.htid,
      hcks := hR2.hcks, hcancel := hR2.hcancel, hmo := hR2.hmo, hfin := hR2.hfin, htrk := hR2.htrk, hmm := hR2.hmm }
  have hver : cks = 15 ∨ Fs.calcChecksum (drained (afterEofA env d2 ⟨h.src, h.seq⟩ crc F.length)).fs
      (Checksum.CksType.ofNat cks) dname F.length 4096 = .ok crc := by
    rcases hcrc with h1 | h1
    · exact Or.inl h1
    · exact Or.inr (h1 _ hR2.hfile)
  have hv := C02_verify_ack env2 _ dname F crc rc _ cks _ hA hms hver
  have hfa := C02_finished_acked env3
    (drained (afterVerifyA env2 (drained (afterEofA env d2 ⟨h.src, h.seq⟩ crc F.length)) ⟨h.src, h.seq⟩ rc))
    rc hack cond ts ha3 hR2.hbusy rfl rfl
    (by simp [drained, afterVerifyA, finP, afterEofA, eofP, hR2.hconf, ha.hmode])
  refine ⟨_, d2, _, _, _, hmd, hfeed, heof, ?_, hv, ?_, hfa, rfl, rfl, ?_, ?_, ?_, ?_⟩
  · simp [afterEofA, hR2.hconf, afterMdA, mdParamsA]
  · simp [afterVerifyA, drained, afterEofA, eofP, hR2.hconf, afterMdA, mdParamsA]
  · simp [drained, afterVerifyA, afterEofA, hR2.hflts]
  · simp [drained, afterVerifyA, afterEofA, hR2.hfile]
  · intro q hq'
    simp only [drained, afterVerifyA, afterEofA]
    rw [hother q hq']
    simp [afterMdA, Fs.C17.get_set_other _ _ _ _ hq']
  · simp only [drained, afterVerifyA, afterEofA, List.filter_append, hfin2]
    have h1 : (afterMdA env d0 h rc closure cks F.length sname dname msgs).inds.filter isFinished =
        d0.inds.filter isFinished := by simp [afterMdA, isFinished]
    rw [h1]
    cases env.cfg.indEofRecv <;> cases env2.cfg.indFinished <;> simp [isFinished]


/-! ## Acknowledged mode (sender side, after the EOF) -/

/-- a PDU the sender admits for its acknowledged transaction: direction towards the sender, its own
entity id as source, the configured destination, the transaction's sequence number -/
structure AdmissibleS (env : Source.Env) (s : Source.SrcSt) (rc : RemoteCfg) (h : Hdr) : Prop where
  hdir : h.dir = .toSend
  hsrc : h.src.val = env.cfg.entityId.val
  hrc : s.p.remoteCfg = some rc
  hdst : h.dst.val = rc.entityId.val
  hseq : h.seq.val = s.p.conf.seq.val
  hmode : s.p.conf.mode = .ack

/-- **ACK (EOF) at the sender**: it stops waiting for it and waits for the Finished PDU -/
theorem C02_source_eof_acked (env : Source.Env) (s : Source.SrcSt) (rc : RemoteCfg) (h : Hdr) (c ts : Nat)
    (req : Source.PutReq)
    (ha : AdmissibleS env s rc h) (hb : s.state = .busy) (hstep : s.step = .WAITING_FOR_EOF_ACK)
    (hq : s.queue = []) (hreq : s.putReq = some req) (hct : s.p.checkTimer = none) :
    Source.stateMachine env (some (.ack h dtEof c ts)) s = .ok () { s with step := .WAITING_FOR_FINISHED } := by
  msimp [Source.stateMachine, Source.checkInsertedPacket, Pdu.hdr, ha.hdir, ha.hsrc, ha.hrc, ha.hdst, ha.hseq,
    Pdu.kind, dtEof, Route.getPacketDestination, ha.hmode, hstep, hb, Source.fsmNonIdle,
    Source.fsmAdvancementAfterPacketsWereSent, hq, hreq, Source.fsmFromSendingFileData, Source.fsmFromSendingEof,
    Source.fsmFromWaitingForEofAck, Source.handleWaitingForAck, Source.handleRetransmission,
    Source.fsmFromWaitingForFinished, Source.handleWaitForFinish, Source.transmissionMode, Source.getP, hct,
    Source.fsmFromNoticeOfCompletion]

def finSrcP (p : Source.Params) (fp : FinishedParams) : Source.Params := { p with finishedParams := some fp }

/-- **Finished PDU at the sender**: it is recorded and acknowledged — exactly one ACK (Finished) queued -/
theorem C02_source_finished (env : Source.Env) (s : Source.SrcSt) (rc : RemoteCfg) (h : Hdr) (fp : FinishedParams)
    (req : Source.PutReq)
    (ha : AdmissibleS env s rc h) (hb : s.state = .busy) (hstep : s.step = .WAITING_FOR_FINISHED)
    (hq : s.queue = []) (hreq : s.putReq = some req) :
    Source.stateMachine env (some (.fin h fp)) s =
      .ok () { s with step := .SENDING_ACK_OF_FINISHED, p := finSrcP s.p fp,
                      queue := [Source.mkAck s.p.conf dtFinished fp.cond tsActive],
                      numReady := s.numReady + 1 } := by
  msimp [Source.stateMachine, Source.checkInsertedPacket, Pdu.hdr, ha.hdir, ha.hsrc, ha.hrc, ha.hdst, ha.hseq,
    Pdu.kind, Route.getPacketDestination, ha.hmode, hstep, hb, Source.fsmNonIdle,
    Source.fsmAdvancementAfterPacketsWereSent, hq, hreq, Source.fsmFromSendingFileData, Source.fsmFromSendingEof,
    Source.fsmFromWaitingForEofAck,
    Source.fsmFromWaitingForFinished, Source.handleWaitForFinish, Source.transmissionMode,
    Source.handleRetransmission, Source.modP, Source.getP, Source.addPacket,
    Source.fsmFromNoticeOfCompletion, finSrcP]

/-- **Completion at the sender**: once the ACK (Finished) has been retrieved, the next call reports
the transaction to the user with the Finished PDU's condition, delivery and file status, and the
handler is idle -/
theorem C02_source_completion (env : Source.Env) (s : Source.SrcSt) (fp : FinishedParams) (tid : Tid)
    (req : Source.PutReq)
    (hb : s.state = .busy) (hstep : s.step = .SENDING_ACK_OF_FINISHED) (hq : s.queue = [])
    (hreq : s.putReq = some req) (hfp : s.p.finishedParams = some fp) (htid : s.p.tid = some tid) :
    Source.stateMachine env none s =
      .ok () { s with state := .idle, step := .IDLE, p := {},
                      inds := s.inds ++ (if env.cfg.indFinished then [.finished (some tid) fp] else []) } := by
  cases hi : env.cfg.indFinished <;>
  msimp [Source.stateMachine, hb, Source.fsmNonIdle, Source.fsmAdvancementAfterPacketsWereSent, hq, hstep, hreq,
    Source.fsmFromSendingFileData, Source.fsmFromSendingEof, Source.fsmFromWaitingForEofAck,
    Source.fsmFromWaitingForFinished, Source.fsmFromNoticeOfCompletion, Source.noticeOfCompletion, hi,
    Source.getP, htid, hfp, Source.modP, Source.emitInd, Source.resetInternal]

/-! ## The two models composed: one run over a fault-free link -/

/-- hand a list of PDUs to the receiver, one `state_machine` call each; `none` = a call raised -/
def feedPdus (env : Dest.Env) : List Pdu → Dest.DestSt → Option Dest.DestSt
  | [], d => some d
  | p :: ps, d =>
    match Dest.stateMachine env (some p) d with
    | .ok _ d' => feedPdus env ps d'
    | .error _ _ => none

theorem feedPdus_append (env : Dest.Env) : ∀ (a b : List Pdu) (d : Dest.DestSt),
    feedPdus env (a ++ b) d = (feedPdus env a d).bind (feedPdus env b) := by
  intro a
  induction a with
  | nil => intro b d; simp [feedPdus]
  | cons p ps ih =>
    intro b d
    simp only [List.cons_append, feedPdus]
    cases Dest.stateMachine env (some p) d with
    | ok _ d' => exact ih b d'
    | error _ _ => rfl

protected theorem rounds_add (env : Source.Env) : ∀ (a b : Nat) (s : Source.SrcSt),
    Source.C07.rounds env (a + b) s =
      match Source.C07.rounds env a s with
      | none => none
      | some (o1, s1) =>
        match Source.C07.rounds env b s1 with
        | none => none
        | some (o2, s2) => some (o1 ++ o2, s2) := Source.C07.rounds_add env

/-- the receiver consumes the sender's tiles: after the first `k` of them the destination file is
the first `k·seg` bytes of the source file -/
theorem receiver_takes_tiles (env : Dest.Env) (conf : Hdr) (rc : RemoteCfg) (t : Tid) (cks : Nat) (dst : String)
    (cl : Bool) (F : List UInt8) (seg : Nat) (hseg : 0 < seg)
    (ha : Admissible env rc { conf with dir := .toRecv }) :
    ∀ (k : Nat) (d : Dest.DestSt), (k = 0 ∨ (k - 1) * seg < F.length) →
      Receiving d dst [] rc t cks cl →
      ∃ d', feedPdus env ((List.range k).map (Source.C07.tile conf F seg 0)) d = some d' ∧
        Receiving d' dst (F.take (k * seg)) rc t cks cl ∧
        (∀ q, q ≠ dst → d'.fs.get q = d.fs.get q) ∧
        d'.inds.filter isFinished = d.inds.filter isFinished ∧ d'.p.conf = d.p.conf := by
  intro k
  induction k with
  | zero => intro d _ hr; exact ⟨d, by simp [feedPdus], by simpa using hr, fun _ _ => rfl, rfl, rfl⟩
  | succ k ih =>
    intro d hk hr
    have hklt : k * seg < F.length := by simpa using hk
    have hk' : k = 0 ∨ (k - 1) * seg < F.length := by
      by_cases h0 : k = 0
      · exact Or.inl h0
      · right
        have : (k - 1) * seg ≤ k * seg := Nat.mul_le_mul_right _ (by omega)
        omega
    obtain ⟨d1, hf, hR, hother, hfin, hcf⟩ := ih d hk' hr
    have hlen : (F.take (k * seg)).length = k * seg := by simp [List.length_take]; omega
    have hdata : (F.drop (k * seg)).take seg ≠ [] := by
      intro h
      have := congrArg List.length h
      simp [List.length_take, List.length_drop] at this
      omega
    have htile := C02_tile env d1 dst (F.take (k * seg)) ((F.drop (k * seg)).take seg) rc t cks
      { conf with dir := .toRecv } cl hR ha hdata
    rw [hlen] at htile
    obtain ⟨hcall, hR'⟩ := htile
    refine ⟨afterTile d1 dst (F.take (k * seg)) ((F.drop (k * seg)).take seg) env t, ?_, ?_, ?_, ?_, ?_⟩
    · rw [List.range_succ, List.map_append, feedPdus_append, hf]
      simp only [Option.bind, List.map_cons, List.map_nil, feedPdus, Source.C07.tile, Source.mkFd,
        Nat.zero_add, hcall]
    · have : F.take (k * seg) ++ (F.drop (k * seg)).take seg = F.take ((k + 1) * seg) := by
        rw [Nat.add_mul, Nat.one_mul, List.take_add]
      rw [← this]; exact hR'
    · intro q hq
      simp only [afterTile]
      rw [Fs.C17.get_set_other _ _ _ _ hq]
      exact hother q hq
    · rw [← hfin]
      simp only [afterTile]
      split <;> simp [isFinished]
    · rw [← hcf]; rfl

open Source.C07 Source.C19 in
/-- **End to end over a fault-free link, unacknowledged mode without closure: the two models
composed.**  A sender whose put request for a non-empty file `F` was accepted, and an idle receiver
that knows the sender; the sender is called and drained `k + 2` times (`k` = number of tiles), every
PDU it emits is handed to the receiver in order, one `state_machine` call each.  Then no call of
either handler raised, both handlers are idle, the destination file is byte-identical to the source
file, every other path of the receiver's filestore and the whole filestore of the sender are
untouched, neither side saw a fault callback, and the receiver issued exactly one
Transaction-Finished indication (No error, Data complete, File retained).  For every file content
and size, segment length, header configuration, CRC-32 / CRC-32C / modular checksum type.
(C07 for the sender's stream, C09 for the independence of the checksum from the chunk length —
the sender computes it with its segment length, the receiver with 4096 —, C17 for the filestore,
`C02_metadata` / `receiver_takes_tiles` / `C02_eof` for the receiver.) -/
theorem C02_end_to_end_unack (envS : Source.Env) (envD : Dest.Env) (s : Source.SrcSt) (d0 : Dest.DestSt)
    (req : Source.PutReq) (rcS rcD : RemoteCfg) (src dst : String) (F crc : List UInt8) (seg k : Nat)
    -- the sender: put request accepted, nothing done yet
    (hst : s.state = .busy) (hstep : s.step = .IDLE) (hq : s.queue = []) (hreq : s.putReq = some req)
    (hpmo : s.p.metadataOnly = false) (hsrc : req.src = some src) (hdst : req.dst = some dst)
    (hfile : s.fs.get src = some (.file F)) (hF : F ≠ []) (hprog : s.p.progress = 0)
    (hrc : s.p.remoteCfg = some rcS) (hbits : s.prov.bits = 8 ∨ s.prov.bits = 16 ∨ s.prov.bits = 32)
    (hseg : Source.segLenOf rcS (startConf envS req rcS s (decide (F.length > 4294967295))) = some seg)
    (hseg0 : 0 < seg) (hmode : s.p.conf.mode = .unack) (hcl : s.p.closure = false)
    (hk : (k - 1) * seg < F.length ∧ F.length ≤ k * seg)
    (hcks : Checksum.calcChecksum (Checksum.CksType.ofNat rcS.cks) F F.length seg = .ok crc)
    (hnull : Checksum.CksType.ofNat rcS.cks ≠ .null) (hlen : crc.length = 4)
    (hack : 0 < rcS.ackMs) (hchk : 0 < envS.cfg.chkMs)
    -- the receiver: idle, knows the sender, the destination can be created
    (ha : Admissible envD rcD { startConf envS req rcS s (decide (F.length > 4294967295)) with dir := .toRecv })
    (hidle : d0.state = .idle) (hdq : d0.queue = []) (hdr : d0.numReady = 0) (hrej : d0.rejects = [])
    (hfl : d0.flts = []) (hnd : Fs.isDir d0.fs dst = false)
    (hok : (∃ old, d0.fs.get dst = some (.file old)) ∨
           (Fs.exists' d0.fs dst = false ∧ Fs.parentIsDir d0.fs dst = true)) :
    ∃ pdus s' d',
      rounds envS (1 + k + 1) s = some (pdus, s') ∧ feedPdus envD pdus d0 = some d' ∧
      s'.state = .idle ∧ d'.state = .idle ∧ d'.queue = [] ∧
      d'.fs.get dst = some (.file F) ∧ (∀ q, q ≠ dst → d'.fs.get q = d0.fs.get q) ∧ s'.fs = s.fs ∧
      d'.flts = [] ∧ s'.flts = s.flts ∧
      d'.inds.filter isFinished = d0.inds.filter isFinished ++
        (if envD.cfg.indFinished
          then [.finished (some ⟨(startConf envS req rcS s (decide (F.length > 4294967295))).src,
                                 (startConf envS req rcS s (decide (F.length > 4294967295))).seq⟩)
                  ⟨ccNoError, dcComplete, fsRetained, none⟩] else []) := by
  have hk1 : 1 ≤ k := by
    rcases Nat.eq_zero_or_pos k with h0 | h0
    · subst h0
      have : F.length = 0 := by have := hk.2; omega
      exact absurd (List.eq_nil_of_length_eq_zero this) hF
    · exact h0
  -- 1. the sender's first call: Metadata
  obtain ⟨hcall1, hS1⟩ := C07_metadata_call envS s req rcS src dst F seg hst hstep hq hreq hpmo hsrc hdst hfile hF
    hprog hrc hbits hseg hseg0
  -- 2. k rounds: the tiles
  obtain ⟨s2, hr2, hp2, hc2, hsg2, hst2, hS2, hFr2⟩ := C07_stream_tiles envS req src F k _ hS1
    (Or.inr (by simp only [Source.C07.drained, afterMetadata, hprog, Nat.zero_add]; exact hk.1))
  have hstep2 : s2.step = .SENDING_FILE_DATA := hst2.resolve_left (by omega)
  have hprog2 : s2.p.progress = s2.p.fileSize := by
    rw [hp2, hS2.hsize]; simp only [Source.C07.drained, afterMetadata, hprog, Nat.zero_add]
    exact Nat.min_eq_left hk.2
  simp only [Frame] at hFr2
  obtain ⟨f1, f2, f3, f4, f5, f6, f7, f8, f9, f10, f11, f12, f13, f14⟩ := hFr2
  -- 3. the EOF call
  obtain ⟨s3, hcall3, hq3, hinds3, hidle3, _, hfs3, hflt3⟩ := C07_eof_call envS s2 req rcS src F crc
    ⟨envS.cfg.entityId, ⟨s.prov.next, s.prov.bits / 8⟩⟩ hS2.hbusy hstep2 hS2.hqueue hS2.hreq hS2.hsrc hS2.hnotMo
    hS2.hfile hS2.hsize hprog2 (by rw [f1]; simp [Source.C07.drained, afterMetadata, hrc]) (by rw [f2]; simp [Source.C07.drained, afterMetadata])
    (by rw [hsg2]; simpa [Source.C07.drained, afterMetadata] using hcks) hnull hlen hack hchk
  have hmode2 : s2.p.conf.mode = .unack := by
    rw [hc2]; simp [Source.C07.drained, afterMetadata, startConf, hmode]
  have hcl2 : s2.p.closure = false := by rw [f3]; simp [Source.C07.drained, afterMetadata, hcl]
  obtain ⟨hidle3a, _⟩ := hidle3 hmode2 hcl2
  -- the sender's run
  have hrun : rounds envS (1 + k + 1) s = some
      ((afterMetadata envS s req rcS src dst F seg).queue ++
        (List.range k).map (tile (Source.C07.drained (afterMetadata envS s req rcS src dst F seg)).p.conf F
          (Source.C07.drained (afterMetadata envS s req rcS src dst F seg)).p.segmentLen
          (Source.C07.drained (afterMetadata envS s req rcS src dst F seg)).p.progress) ++ s3.queue,
       Source.C07.drained s3) := by
    rw [rounds_add envS (1 + k) 1 s, rounds_add envS 1 k s]
    simp [rounds, round, hcall1, hr2, hcall3]
  -- 4. the receiver
  obtain ⟨hmd, hR1⟩ := C02_metadata envD d0 _ rcD rcS.cks F.length src dst (some (req.msgs.getD [])) false ha hidle hdq
    hdr hrej hfl hnd hok
  obtain ⟨d2, hfeed2, hR2, hother2, hfin2, _⟩ := receiver_takes_tiles envD
    (startConf envS req rcS s (decide (F.length > 4294967295))) rcD _ rcS.cks dst false F seg hseg0 ha k _
    (Or.inr hk.1) hR1
  rw [List.take_of_length_le hk.2] at hR2
  have hver : rcS.cks = 15 ∨ Fs.calcChecksum d2.fs (Checksum.CksType.ofNat rcS.cks) dst F.length 4096 = .ok crc := by
    right
    have := Checksum.C09.C09_chunk_length_irrelevant (Checksum.CksType.ofNat rcS.cks) F F.length seg 4096
      (by omega) (by omega)
    simp [Fs.calcChecksum, hnull, hR2.hfile, ← this, hcks]
  have heof := C02_eof envD d2 dst F crc rcD _ rcS.cks _ hR2 ha hver
  refine ⟨_, Source.C07.drained s3, afterEof envD d2 ⟨(startConf envS req rcS s (decide (F.length > 4294967295))).src, (startConf envS req rcS s (decide (F.length > 4294967295))).seq⟩, hrun, ?_⟩
  refine ⟨?_, ?_, ?_, ?_, ?_, ?_, ?_, ?_, ?_, ?_⟩
  · -- feeding exactly these PDUs
    have hmdq : (afterMetadata envS s req rcS src dst F seg).queue =
        [Pdu.md { startConf envS req rcS s (decide (F.length > 4294967295)) with dir := .toRecv } false rcS.cks
          F.length (some src) (some dst) (some (req.msgs.getD []))] := by
      simp [afterMetadata, Source.mkMd, hcl]
    have htl : (List.range k).map (tile (Source.C07.drained (afterMetadata envS s req rcS src dst F seg)).p.conf F
          (Source.C07.drained (afterMetadata envS s req rcS src dst F seg)).p.segmentLen
          (Source.C07.drained (afterMetadata envS s req rcS src dst F seg)).p.progress) =
        (List.range k).map (tile (startConf envS req rcS s (decide (F.length > 4294967295))) F seg 0) := by
      simp [Source.C07.drained, afterMetadata, hprog]
    have heq : s3.queue = [Pdu.eof { startConf envS req rcS s (decide (F.length > 4294967295)) with dir := .toRecv }
        ccNoError crc F.length none] := by
      rw [hq3, hc2]; simp [Source.mkEof, Source.C07.drained, afterMetadata]
    rw [hmdq, htl, heq, feedPdus_append, feedPdus_append]
    simp only [feedPdus, hmd, Option.bind, hfeed2, heof]
  · simpa [Source.C07.drained] using hidle3a
  · rfl
  · simp [afterEof, hR2.hqueue]
  · simp [afterEof, hR2.hfile]
  · intro q hq'
    simp only [afterEof]
    rw [hother2 q hq']
    simp [afterMd, Fs.C17.get_set_other _ _ _ _ hq']
  · simp [Source.C07.drained, hfs3, f6, afterMetadata]
  · simp [afterEof, hR2.hflts]
  · simp [Source.C07.drained, hflt3, f5, afterMetadata]
  · simp only [afterEof, List.filter_append, hfin2]
    have h1 : (afterMd envD d0 { startConf envS req rcS s (decide (F.length > 4294967295)) with dir := .toRecv }
        rcD rcS.cks F.length src dst (some (req.msgs.getD [])) false).inds.filter isFinished =
        d0.inds.filter isFinished := by simp [afterMd, isFinished]
    rw [h1]
    cases envD.cfg.indEofRecv <;> cases envD.cfg.indFinished <;> simp [isFinished]

/-! ## The two models composed, acknowledged mode -/

def eofAckP (p : Source.Params) (now ms : Nat) : Source.Params :=
  { p with ackTimer := some ⟨now, ms⟩, ackCounter := 0 }

def condS (s : Source.SrcSt) : Source.SrcSt := { s with p := { s.p with condCodeEof := some ccNoError } }

def waitFinS (s : Source.SrcSt) : Source.SrcSt := { s with step := .WAITING_FOR_FINISHED }

def afterFinS (s : Source.SrcSt) (fp : FinishedParams) : Source.SrcSt :=
  { s with step := .SENDING_ACK_OF_FINISHED, p := finSrcP s.p fp,
           queue := [Source.mkAck s.p.conf dtFinished fp.cond tsActive], numReady := s.numReady + 1 }

/-- sender, acknowledged mode, after the call that queued the EOF PDU -/
def afterEofS (env : Source.Env) (s : Source.SrcSt) (rc : RemoteCfg) (cks : List UInt8) (tid : Tid) (n : Nat) :
    Source.SrcSt :=
  { s with step := .WAITING_FOR_EOF_ACK, p := eofAckP s.p env.now rc.ackMs,
           queue := [Source.mkEof s.p.conf ccNoError cks n], numReady := s.numReady + 1,
           inds := s.inds ++ (if env.cfg.indEofSent then [Ind.eofSent tid] else []) }

/-- the EOF call in acknowledged mode, exact resulting state (cf. `C07_eof_call`) -/
theorem C07_eof_call_ack (env : Source.Env) (s : Source.SrcSt) (req : Source.PutReq) (rc : RemoteCfg) (src : String)
    (F cks : List UInt8) (tid : Tid)
    (hst : s.state = .busy) (hstep : s.step = .SENDING_FILE_DATA) (hq : s.queue = [])
    (hreq : s.putReq = some req) (hsrc : req.src = some src) (hmo : s.p.metadataOnly = false)
    (hfile : s.fs.get src = some (.file F)) (hsize : s.p.fileSize = F.length)
    (hprog : s.p.progress = s.p.fileSize) (hrc : s.p.remoteCfg = some rc) (htid : s.p.tid = some tid)
    (hcks : Checksum.calcChecksum (Checksum.CksType.ofNat rc.cks) F F.length s.p.segmentLen = .ok cks)
    (hnull : Checksum.CksType.ofNat rc.cks ≠ .null) (hlen : cks.length = 4)
    (hack : rc.ackMs ≠ 0) (hm : s.p.conf.mode = .ack) :
    Source.stateMachine env none s =
      .ok () (afterEofS env (condS s) rc cks tid F.length) := by
  have hc : Fs.calcChecksum s.fs (Checksum.CksType.ofNat rc.cks) src F.length s.p.segmentLen = .ok cks := by
    simp [Fs.calcChecksum, hnull, hfile, hcks]
  cases hi : env.cfg.indEofSent <;>
  msimp [Source.stateMachine, Source.fsmNonIdle, Source.fsmAdvancementAfterPacketsWereSent,
    Source.fsmFromSendingFileData, Source.sendingFileDataFsm, Source.handleRetransmission,
    Source.fsmFromSendingEof, Source.fsmFromWaitingForEofAck, Source.fsmFromWaitingForFinished,
    Source.fsmFromNoticeOfCompletion,
    Source.checksumCalculation, Source.prepareEofPdu, Source.handleEofSent, Source.startPositiveAckProcedure,
    Source.handleWaitingForAck, Source.handlePositiveAckProcedures,
    Source.transmissionMode, Timer.timedOut,
    Source.getP, Source.modP, Source.addPacket, Source.emitInd, hst, hstep, hq, hreq, hsrc, hmo, hsize, hprog, hrc,
    htid, hc, hlen, hm, hi, hack, afterEofS, eofAckP, condS]

open Source.C07 Source.C19 in
/-- **The sender's whole run in acknowledged mode** (any admissible ACK (EOF) and Finished PDU coming
back): Metadata, the `k` tiles, the EOF; the ACK (EOF) moves it on; the Finished PDU is recorded and
acknowledged with exactly one ACK (Finished); after its retrieval the next call reports the
transaction to the user with the Finished PDU's values and the sender is idle.  No call raises. -/
theorem C02_sender_ack_run (envS : Source.Env) (s : Source.SrcSt)
    (req : Source.PutReq) (rcS : RemoteCfg) (src dst : String) (F crc : List UInt8) (seg k : Nat)
    (hA hF' : Hdr) (cA tA : Nat) (fp : FinishedParams) (now2 now3 now4 : Nat)
    (hst : s.state = .busy) (hstep : s.step = .IDLE) (hq : s.queue = []) (hreq : s.putReq = some req)
    (hpmo : s.p.metadataOnly = false) (hsrc : req.src = some src) (hdst : req.dst = some dst)
    (hfile : s.fs.get src = some (.file F)) (hF : F ≠ []) (hprog : s.p.progress = 0)
    (hrc : s.p.remoteCfg = some rcS) (hbits : s.prov.bits = 8 ∨ s.prov.bits = 16 ∨ s.prov.bits = 32)
    (hseg : Source.segLenOf rcS (startConf envS req rcS s (decide (F.length > 4294967295))) = some seg)
    (hseg0 : 0 < seg) (hmode : s.p.conf.mode = .ack) (hct : s.p.checkTimer = none)
    (hk : (k - 1) * seg < F.length ∧ F.length ≤ k * seg)
    (hcks : Checksum.calcChecksum (Checksum.CksType.ofNat rcS.cks) F F.length seg = .ok crc)
    (hnull : Checksum.CksType.ofNat rcS.cks ≠ .null) (hlen : crc.length = 4) (hack : rcS.ackMs ≠ 0)
    -- the PDUs coming back are addressed to this transaction
    (hAdir : hA.dir = .toSend) (hAsrc : hA.src.val = envS.cfg.entityId.val) (hAdst : hA.dst.val = rcS.entityId.val)
    (hAseq : hA.seq.val = s.prov.next)
    (hFdir : hF'.dir = .toSend) (hFsrc : hF'.src.val = envS.cfg.entityId.val) (hFdst : hF'.dst.val = rcS.entityId.val)
    (hFseq : hF'.seq.val = s.prov.next) :
    let conf := startConf envS req rcS s (decide (F.length > 4294967295))
    let tid : Tid := ⟨envS.cfg.entityId, ⟨s.prov.next, s.prov.bits / 8⟩⟩
    ∃ s3 s4 s5 s6,
      rounds envS (1 + k + 1) s = some
        ([Source.mkMd conf s.p.closure rcS.cks F.length (some src) (some dst) (some (req.msgs.getD []))] ++
          (List.range k).map (tile conf F seg 0) ++ [Source.mkEof conf ccNoError crc F.length], s3) ∧
      Source.stateMachine ⟨envS.cfg, now2⟩ (some (.ack hA dtEof cA tA)) s3 = .ok () s4 ∧ s4.queue = [] ∧
      Source.stateMachine ⟨envS.cfg, now3⟩ (some (.fin hF' fp)) s4 = .ok () s5 ∧
      s5.queue = [Source.mkAck conf dtFinished fp.cond tsActive] ∧
      Source.stateMachine ⟨envS.cfg, now4⟩ none (Source.C07.drained s5) = .ok () s6 ∧
      s6.state = .idle ∧ s6.queue = [] ∧ s6.fs = s.fs ∧ s6.flts = s.flts ∧
      s6.inds.filter isFinished = s.inds.filter isFinished ++
        (if envS.cfg.indFinished then [.finished (some tid) fp] else []) := by
  intro conf tid
  have hk1 : 1 ≤ k := by
    rcases Nat.eq_zero_or_pos k with h0 | h0
    · subst h0
      have : F.length = 0 := by have := hk.2; omega
      exact absurd (List.eq_nil_of_length_eq_zero this) hF
    · exact h0
  obtain ⟨hcall1, hS1⟩ := C07_metadata_call envS s req rcS src dst F seg hst hstep hq hreq hpmo hsrc hdst hfile hF
    hprog hrc hbits hseg hseg0
  obtain ⟨s2, hr2, hp2, hc2, hsg2, hst2, hS2, hFr2⟩ := C07_stream_tiles envS req src F k _ hS1
    (Or.inr (by simp only [Source.C07.drained, afterMetadata, hprog, Nat.zero_add]; exact hk.1))
  have hstep2 : s2.step = .SENDING_FILE_DATA := hst2.resolve_left (by omega)
  have hprog2 : s2.p.progress = s2.p.fileSize := by
    rw [hp2, hS2.hsize]; simp only [Source.C07.drained, afterMetadata, hprog, Nat.zero_add]
    exact Nat.min_eq_left hk.2
  simp only [Frame] at hFr2
  obtain ⟨f1, f2, f3, f4, f5, f6, f7, f8, f9, f10, f11, f12, f13, f14, f15, f16⟩ := hFr2
  have hmode2 : s2.p.conf.mode = .ack := by
    rw [hc2]; simp [Source.C07.drained, afterMetadata, startConf, hmode]
  have hcall3 := C07_eof_call_ack envS s2 req rcS src F crc tid hS2.hbusy hstep2 hS2.hqueue hS2.hreq hS2.hsrc
    hS2.hnotMo hS2.hfile hS2.hsize hprog2 (by rw [f1]; simp [Source.C07.drained, afterMetadata, hrc])
    (by rw [f2]; simp [Source.C07.drained, afterMetadata, tid])
    (by rw [hsg2]; simpa [Source.C07.drained, afterMetadata] using hcks) hnull hlen hack hmode2
  -- the state after the EOF call, drained
  let s3 := Source.C07.drained (afterEofS envS (condS s2) rcS crc tid F.length)
  have hconf3 : s3.p.conf = conf := by
    show s2.p.conf = conf
    rw [hc2]; simp [Source.C07.drained, afterMetadata, conf]
  have hrc3 : s3.p.remoteCfg = some rcS := by
    show s2.p.remoteCfg = some rcS
    rw [f1]; simp [Source.C07.drained, afterMetadata, hrc]
  have hadm : AdmissibleS ⟨envS.cfg, now2⟩ s3 rcS hA :=
    { hdir := hAdir, hsrc := hAsrc, hrc := hrc3, hdst := hAdst,
      hseq := by rw [hconf3]; simpa [conf, startConf] using hAseq,
      hmode := by rw [hconf3]; simp [conf, startConf, hmode] }
  have hreq3 : s3.putReq = some req := by
    show s2.putReq = some req
    exact hS2.hreq
  have hct3 : s3.p.checkTimer = none := by
    show s2.p.checkTimer = none
    rw [f15]; simp [Source.C07.drained, afterMetadata, hct]
  have h4 := C02_source_eof_acked ⟨envS.cfg, now2⟩ s3 rcS hA cA tA req hadm hS2.hbusy rfl rfl hreq3 hct3
  -- the Finished PDU
  have hadm5 : AdmissibleS ⟨envS.cfg, now3⟩ (waitFinS s3) rcS hF' :=
    { hdir := hFdir, hsrc := hFsrc, hrc := hrc3, hdst := hFdst,
      hseq := by show hF'.seq.val = s3.p.conf.seq.val; rw [hconf3]; simpa [conf, startConf] using hFseq,
      hmode := by show s3.p.conf.mode = .ack; rw [hconf3]; simp [conf, startConf, hmode] }
  have h5 := C02_source_finished ⟨envS.cfg, now3⟩ (waitFinS s3) rcS hF' fp req hadm5
    hS2.hbusy rfl rfl hreq3
  -- completion
  have h6 := C02_source_completion ⟨envS.cfg, now4⟩
    (Source.C07.drained (afterFinS (waitFinS s3) fp))
    fp tid req hS2.hbusy rfl rfl hreq3 rfl
    (by show s2.p.tid = some tid; rw [f2]; simp [Source.C07.drained, afterMetadata, tid])
  have hrun : rounds envS (1 + k + 1) s = some
      ([Source.mkMd conf s.p.closure rcS.cks F.length (some src) (some dst) (some (req.msgs.getD []))] ++
        (List.range k).map (tile conf F seg 0) ++ [Source.mkEof conf ccNoError crc F.length], s3) := by
    rw [rounds_add envS (1 + k) 1 s, rounds_add envS 1 k s]
    simp only [rounds, round, hcall1, hr2, hcall3]
    simp [Source.C07.drained, afterMetadata, afterEofS, hprog, hc2, conf, s3, condS]
  refine ⟨s3, _, _, _, hrun, h4, rfl, h5, ?_, h6, rfl, rfl, ?_, ?_, ?_⟩
  · have : (waitFinS s3).p.conf = conf := hconf3
    rw [this]
  · simp [Source.C07.drained, afterFinS, waitFinS, afterEofS, condS, f6, afterMetadata, s3]
  · simp [Source.C07.drained, afterFinS, waitFinS, afterEofS, condS, f5, afterMetadata, s3]
  · simp only [Source.C07.drained, afterFinS, waitFinS, afterEofS, condS, s3, f4, afterMetadata, List.filter_append]
    cases envS.cfg.indEofSent <;> cases envS.cfg.indFinished <;> simp [isFinished]

def idleOf (d : Dest.DestSt) : Dest.DestSt := { d with state := .idle, step := .IDLE, p := {} }

/-- the receiver consumes the sender's tiles (acknowledged mode) -/
theorem receiver_takes_tiles_ack (env : Dest.Env) (conf cd : Hdr) (rc : RemoteCfg) (t : Tid) (cks : Nat)
    (dst : String) (F : List UInt8) (seg : Nat) (hseg : 0 < seg)
    (ha : AdmissibleA env rc { conf with dir := .toRecv }) :
    ∀ (k : Nat) (d : Dest.DestSt), (k = 0 ∨ (k - 1) * seg < F.length) →
      ReceivingA d dst [] rc t cks cd →
      ∃ d', feedPdus env ((List.range k).map (Source.C07.tile conf F seg 0)) d = some d' ∧
        ReceivingA d' dst (F.take (k * seg)) rc t cks cd ∧
        (∀ q, q ≠ dst → d'.fs.get q = d.fs.get q) ∧
        d'.inds.filter isFinished = d.inds.filter isFinished := by
  intro k
  induction k with
  | zero => intro d _ hr; exact ⟨d, by simp [feedPdus], by simpa using hr, fun _ _ => rfl, rfl⟩
  | succ k ih =>
    intro d hk hr
    have hklt : k * seg < F.length := by simpa using hk
    have hk' : k = 0 ∨ (k - 1) * seg < F.length := by
      by_cases h0 : k = 0
      · exact Or.inl h0
      · right
        have : (k - 1) * seg ≤ k * seg := Nat.mul_le_mul_right _ (by omega)
        omega
    obtain ⟨d1, hf, hR, hother, hfin⟩ := ih d hk' hr
    have hlen : (F.take (k * seg)).length = k * seg := by simp [List.length_take]; omega
    have hdata : (F.drop (k * seg)).take seg ≠ [] := by
      intro h
      have := congrArg List.length h
      simp [List.length_take, List.length_drop] at this
      omega
    have htile := C02_tile_ack env d1 dst (F.take (k * seg)) ((F.drop (k * seg)).take seg) rc t cks cd
      { conf with dir := .toRecv } hR ha hdata
    rw [hlen] at htile
    obtain ⟨hcall, hR'⟩ := htile
    refine ⟨afterTileA d1 dst (F.take (k * seg)) ((F.drop (k * seg)).take seg) env t, ?_, ?_, ?_, ?_⟩
    · rw [List.range_succ, List.map_append, feedPdus_append, hf]
      simp only [Option.bind, List.map_cons, List.map_nil, feedPdus, Source.C07.tile, Source.mkFd,
        Nat.zero_add, hcall]
    · have : F.take (k * seg) ++ (F.drop (k * seg)).take seg = F.take ((k + 1) * seg) := by
        rw [Nat.add_mul, Nat.one_mul, List.take_add]
      rw [← this]; exact hR'
    · intro q hq
      simp only [afterTileA]
      rw [Fs.C17.get_set_other _ _ _ _ hq]
      exact hother q hq
    · rw [← hfin]
      simp only [afterTileA]
      split <;> simp [isFinished]

open Source.C07 Source.C19 in
/-- **End to end over a fault-free link, acknowledged mode: the two models composed.**  The sender
(put request accepted) is called and drained `k + 2` times and all its PDUs are handed to the idle
receiver in order; the receiver's ACK (EOF) goes back to the sender; the receiver's next call
verifies and emits the Finished PDU, which goes to the sender; the sender's ACK (Finished) goes to
the receiver; one more call of the sender.  No call of either handler raises; both end idle; the
destination file is byte-identical to the source file; both users get exactly one
Transaction-Finished indication reporting No error / Data complete / File retained; no fault
callback on either side.  For every file content and size, segment length, header configuration,
closure setting and CRC-32 / CRC-32C / modular checksum type. -/
theorem C02_end_to_end_ack (envS : Source.Env) (envD : Dest.Env) (s : Source.SrcSt) (d0 : Dest.DestSt)
    (req : Source.PutReq) (rcS rcD : RemoteCfg) (src dst : String) (F crc : List UInt8) (seg k : Nat)
    (now2 now3 now4 nowD2 nowD3 : Nat)
    (hst : s.state = .busy) (hstep : s.step = .IDLE) (hq : s.queue = []) (hreq : s.putReq = some req)
    (hpmo : s.p.metadataOnly = false) (hsrc : req.src = some src) (hdst : req.dst = some dst)
    (hfile : s.fs.get src = some (.file F)) (hF : F ≠ []) (hprog : s.p.progress = 0)
    (hrc : s.p.remoteCfg = some rcS) (hrcid : rcS.entityId.val = req.destId.val)
    (hbits : s.prov.bits = 8 ∨ s.prov.bits = 16 ∨ s.prov.bits = 32)
    (hseg : Source.segLenOf rcS (startConf envS req rcS s (decide (F.length > 4294967295))) = some seg)
    (hseg0 : 0 < seg) (hmode : s.p.conf.mode = .ack) (hct : s.p.checkTimer = none)
    (hk : (k - 1) * seg < F.length ∧ F.length ≤ k * seg)
    (hcks : Checksum.calcChecksum (Checksum.CksType.ofNat rcS.cks) F F.length seg = .ok crc)
    (hnull : Checksum.CksType.ofNat rcS.cks ≠ .null) (hlen : crc.length = 4) (hack : rcS.ackMs ≠ 0)
    (ha : AdmissibleA envD rcD { startConf envS req rcS s (decide (F.length > 4294967295)) with dir := .toRecv })
    (hackD : rcD.ackMs ≠ 0)
    (hidle : d0.state = .idle) (hdq : d0.queue = []) (hdr : d0.numReady = 0) (hrej : d0.rejects = [])
    (hfl : d0.flts = []) (hnd : Fs.isDir d0.fs dst = false)
    (hok : (∃ old, d0.fs.get dst = some (.file old)) ∨
           (Fs.exists' d0.fs dst = false ∧ Fs.parentIsDir d0.fs dst = true)) :
    let conf := startConf envS req rcS s (decide (F.length > 4294967295))
    let fpOk : FinishedParams := ⟨ccNoError, dcComplete, fsRetained, none⟩
    ∃ pdus s3 d3 ackEof s4 d4 fin s5 ackFin d5 s6,
      -- sender: Metadata, tiles, EOF; receiver takes them and acknowledges the EOF
      rounds envS (1 + k + 1) s = some (pdus, s3) ∧ feedPdus envD pdus d0 = some d3 ∧ d3.queue = [ackEof] ∧
      Source.stateMachine ⟨envS.cfg, now2⟩ (some ackEof) s3 = .ok () s4 ∧ s4.queue = [] ∧
      -- receiver: verification, Finished PDU; sender acknowledges it
      Dest.stateMachine ⟨envD.cfg, nowD2⟩ none (drained d3) = .ok () d4 ∧ d4.queue = [fin] ∧
      Source.stateMachine ⟨envS.cfg, now3⟩ (some fin) s4 = .ok () s5 ∧ s5.queue = [ackFin] ∧
      Dest.stateMachine ⟨envD.cfg, nowD3⟩ (some ackFin) (drained d4) = .ok () d5 ∧
      Source.stateMachine ⟨envS.cfg, now4⟩ none (Source.C07.drained s5) = .ok () s6 ∧
      -- outcome
      s6.state = .idle ∧ d5.state = .idle ∧ s6.queue = [] ∧ d5.queue = [] ∧
      d5.fs.get dst = some (.file F) ∧ (∀ q, q ≠ dst → d5.fs.get q = d0.fs.get q) ∧ s6.fs = s.fs ∧
      d5.flts = [] ∧ s6.flts = s.flts ∧
      s6.inds.filter isFinished = s.inds.filter isFinished ++
        (if envS.cfg.indFinished then [.finished (some ⟨envS.cfg.entityId, ⟨s.prov.next, s.prov.bits / 8⟩⟩) fpOk]
         else []) ∧
      d5.inds.filter isFinished = d0.inds.filter isFinished ++
        (if envD.cfg.indFinished then [.finished (some ⟨conf.src, conf.seq⟩) fpOk] else []) := by
  intro conf fpOk
  -- the receiver's PDU headers as the sender sees them
  let cd : Hdr := ⟨.toSend, conf.mode, conf.crc, conf.large, conf.src, conf.dst, conf.seq⟩
  have hsrcv : conf.src.val = envS.cfg.entityId.val := by simp [conf, startConf]
  have hdstv : conf.dst.val = rcS.entityId.val := by simp [conf, startConf, hrcid]
  have hseqv : conf.seq.val = s.prov.next := by simp [conf, startConf]
  obtain ⟨s3, s4, s5, s6, hrun, h4, hq4, h5, hq5, h6, hi6, hq6, hfs6, hfl6, hin6⟩ :=
    C02_sender_ack_run envS s req rcS src dst F crc seg k cd cd ccNoError tsActive fpOk now2 now3 now4
      hst hstep hq hreq hpmo hsrc hdst hfile hF hprog hrc hbits hseg hseg0 hmode hct hk hcks hnull hlen hack
      rfl hsrcv hdstv hseqv rfl hsrcv hdstv hseqv
  -- the receiver
  obtain ⟨hmd, hR1⟩ := C02_metadata_ack envD d0 { conf with dir := .toRecv } rcD s.p.closure rcS.cks F.length src dst
    (some (req.msgs.getD [])) ha hidle hdq hdr hrej hfl hnd hok
  obtain ⟨d2, hfeed2, hR2, hother2, hfin2⟩ := receiver_takes_tiles_ack envD conf _ rcD _ rcS.cks dst F seg hseg0 ha k _
    (Or.inr hk.1) hR1
  rw [List.take_of_length_le hk.2] at hR2
  have heof := C02_eof_ack envD d2 dst F crc rcD _ rcS.cks _ { conf with dir := .toRecv } hR2 ha
  have hA : Acked (drained (afterEofA envD d2 ⟨conf.src, conf.seq⟩ crc F.length)) dst F crc rcD ⟨conf.src, conf.seq⟩
      rcS.cks cd :=
    { hbusy := hR2.hbusy, hstep := rfl, hready := rfl, hqueue := rfl, hconf := hR2.hconf, hmode := hR2.hmode,
      hname := hR2.hname, hfile := hR2.hfile, hprog := hR2.hprog, hcrc := rfl, hrc := hR2.hrc, htid := hR2.htid,
      hcks := hR2.hcks, hcancel := hR2.hcancel, hmo := hR2.hmo, hfin := hR2.hfin, htrk := hR2.htrk, hmm := hR2.hmm }
  have hver : rcS.cks = 15 ∨ Fs.calcChecksum (drained (afterEofA envD d2 ⟨conf.src, conf.seq⟩ crc F.length)).fs
      (Checksum.CksType.ofNat rcS.cks) dst F.length 4096 = .ok crc := by
    right
    have := Checksum.C09.C09_chunk_length_irrelevant (Checksum.CksType.ofNat rcS.cks) F F.length seg 4096
      (by omega) (by omega)
    have hf : (drained (afterEofA envD d2 ⟨conf.src, conf.seq⟩ crc F.length)).fs.get dst = some (.file F) := hR2.hfile
    simp [Fs.calcChecksum, hnull, hf, ← this, hcks]
  have hv := C02_verify_ack ⟨envD.cfg, nowD2⟩ _ dst F crc rcD _ rcS.cks _ hA hackD hver
  have hfa := C02_finished_acked ⟨envD.cfg, nowD3⟩
    (drained (afterVerifyA ⟨envD.cfg, nowD2⟩ (drained (afterEofA envD d2 ⟨conf.src, conf.seq⟩ crc F.length))
      ⟨conf.src, conf.seq⟩ rcD))
    rcD { conf with dir := .toRecv } fpOk.cond tsActive
    { hdir := rfl, hdst := ha.hdst, hsrc := ha.hsrc, hmode := ha.hmode } hR2.hbusy rfl rfl
    (by simp [drained, afterVerifyA, finP, afterEofA, eofP, hR2.hconf]; exact ha.hmode)
  have hfeed : feedPdus envD
      ([Source.mkMd conf s.p.closure rcS.cks F.length (some src) (some dst) (some (req.msgs.getD []))] ++
        (List.range k).map (tile conf F seg 0) ++ [Source.mkEof conf ccNoError crc F.length]) d0 =
      some (afterEofA envD d2 ⟨conf.src, conf.seq⟩ crc F.length) := by
    rw [feedPdus_append, feedPdus_append]
    simp only [feedPdus, Source.mkMd, Source.mkEof, hmd, Option.bind, hfeed2, heof]
  obtain ⟨d5, hd5, hd5s, hd5q, hd5fs, hd5fl, hd5i⟩ : ∃ d5,
      Dest.stateMachine ⟨envD.cfg, nowD3⟩ (some (Source.mkAck conf dtFinished fpOk.cond tsActive))
        (drained (afterVerifyA ⟨envD.cfg, nowD2⟩ (drained (afterEofA envD d2 ⟨conf.src, conf.seq⟩ crc F.length))
          ⟨conf.src, conf.seq⟩ rcD)) = .ok () d5 ∧
      d5.state = .idle ∧ d5.queue = [] ∧ d5.fs = d2.fs ∧ d5.flts = d2.flts ∧
      d5.inds = (afterVerifyA ⟨envD.cfg, nowD2⟩ (drained (afterEofA envD d2 ⟨conf.src, conf.seq⟩ crc F.length))
          ⟨conf.src, conf.seq⟩ rcD).inds :=
    ⟨idleOf (drained (afterVerifyA ⟨envD.cfg, nowD2⟩ (drained (afterEofA envD d2 ⟨conf.src, conf.seq⟩ crc F.length))
          ⟨conf.src, conf.seq⟩ rcD)), by simpa [Source.mkAck, dtFinished, idleOf] using hfa, rfl, rfl, rfl, rfl, rfl⟩
  refine ⟨_, s3, _, Pdu.ack cd dtEof ccNoError tsActive, s4, _, Pdu.fin cd fpOk, s5,
    Source.mkAck conf dtFinished fpOk.cond tsActive, d5, s6, hrun, hfeed, ?_, h4, hq4, hv, ?_, h5, hq5, hd5, h6,
    hi6, hd5s, hq6, hd5q, ?_, ?_, hfs6, ?_, hfl6, hin6, ?_⟩
  · simp [afterEofA, Dest.mkAck, hR2.hconf, dtEof, dtFinished, cd]
  · simp [afterVerifyA, drained, afterEofA, eofP, Dest.mkFin, hR2.hconf, cd, fpOk]
  · rw [hd5fs]; exact hR2.hfile
  · intro q hq'
    rw [hd5fs, hother2 q hq']
    simp [afterMdA, Fs.C17.get_set_other _ _ _ _ hq']
  · rw [hd5fl]; exact hR2.hflts
  · rw [hd5i]
    simp only [drained, afterVerifyA, afterEofA, List.filter_append, hfin2]
    have h1 : (afterMdA envD d0 { conf with dir := .toRecv } rcD s.p.closure rcS.cks F.length src dst
        (some (req.msgs.getD []))).inds.filter isFinished = d0.inds.filter isFinished := by
      simp [afterMdA, isFinished]
    rw [h1]
    cases envD.cfg.indEofRecv <;> cases envD.cfg.indFinished <;> simp [isFinished, fpOk]

/-! ## Pacing: a call without a PDU between timer expiries does nothing -/

/-- nothing is due at the receiver: no timer it is waiting on has run out (and, while it receives file
data, there is no timer at all) -/
def QuietD (env : Dest.Env) (d : Dest.DestSt) : Prop :=
  (d.step = .RECEIVING_FILE_DATA) ∨
  ((d.step = .WAITING_FOR_METADATA ∨ d.step = .WAITING_FOR_MISSING_DATA) ∧
    (d.p.deferredActive = false ∨
      (d.p.canceled = false ∧ (d.p.trk.length ≠ 0 ∨ d.p.metadataMissing = true) ∧ d.p.remoteCfg ≠ none ∧
        d.p.fileSizeEof ≠ none ∧ ∃ t, d.p.procTimer = some t ∧ t.timedOut env.now = false))) ∨
  (d.step = .RECV_FILE_DATA_WITH_CHECK_LIMIT_HANDLING ∧ d.p.remoteCfg ≠ none ∧
    ∃ t, d.p.checkTimer = some t ∧ t.timedOut env.now = false) ∨
  (d.step = .WAITING_FOR_FINISHED_ACK ∧ d.p.remoteCfg ≠ none ∧
    ∃ t, d.p.ackTimer = some t ∧ t.timedOut env.now = false)

/-- **Receiver: an empty call between expiries is a no-op.**  Busy, nothing left to retrieve, no
timer run out: `state_machine()` without a PDU returns without changing anything — no PDU, no
indication, no fault, no write.  Hence the composed delivery and recovery theorems, stated for one
call per PDU, hold for every pacing that inserts such calls anywhere. -/
theorem C02_dest_empty_call_noop (env : Dest.Env) (d : Dest.DestSt) (hb : d.state = .busy) (hq : d.queue = [])
    (hQ : QuietD env d) : Dest.stateMachine env none d = .ok () d := by
  unfold Dest.stateMachine
  generalize (Dest.stateMachineWith env none (Dest.stateMachineWith env none (throw Err.recursionError))) = rec
  rcases hQ with hs | ⟨hs, hdef⟩ | ⟨hs, hrc, t, ht, hrun⟩ | ⟨hs, hrc, t, ht, hrun⟩
  · msimp [Dest.stateMachineWith, hb, Dest.nonIdleFsm, Dest.fsmAdvancementAfterPacketsWereSent, hq, hs,
      Dest.fsmFromReceiving, Dest.fsmFromWaitingForMetadata, Dest.fsmFromCheckLimit,
      Dest.fsmFromWaitingForMissingData, Dest.fsmFromTransferCompletion, Dest.fsmFromSendingFinishedPdu,
      Dest.fsmFromWaitingForFinishedAck]
  · rcases hdef with hdef | ⟨hc, hmiss, hrc, hfse, t, ht, hrun⟩
    · rcases hs with hs | hs <;>
      msimp [Dest.stateMachineWith, hb, Dest.nonIdleFsm, Dest.fsmAdvancementAfterPacketsWereSent, hq, hs,
        Dest.fsmFromReceiving, Dest.fsmFromWaitingForMetadata, Dest.handleWaitingForMissingMetadata,
        Dest.deferredLostSegmentHandling, Dest.getP, hdef, Dest.fsmFromCheckLimit,
        Dest.fsmFromWaitingForMissingData, Dest.fsmFromTransferCompletion, Dest.fsmFromSendingFinishedPdu,
        Dest.fsmFromWaitingForFinishedAck]
    · obtain ⟨rc, hrc'⟩ := Option.ne_none_iff_exists'.mp hrc
      obtain ⟨fse, hfse'⟩ := Option.ne_none_iff_exists'.mp hfse
      have hda : d.p.deferredActive = true ∨ d.p.deferredActive = false := by cases d.p.deferredActive <;> simp
      have hm : ¬ (d.p.trk.length = 0 ∧ d.p.metadataMissing = false) := by
        rcases hmiss with h | h
        · intro hh; exact h hh.1
        · intro hh; rw [h] at hh; exact absurd hh.2 (by simp)
      have hm2 : ¬ (d.p.trk = [] ∧ d.p.metadataMissing = false) := by
        intro hh; exact hm ⟨by rw [hh.1]; rfl, hh.2⟩
      rcases hda with hda | hda <;> rcases hs with hs | hs <;>
      msimp [Dest.stateMachineWith, hb, Dest.nonIdleFsm, Dest.fsmAdvancementAfterPacketsWereSent, hq, hs,
        Dest.fsmFromReceiving, Dest.fsmFromWaitingForMetadata, Dest.handleWaitingForMissingMetadata,
        Dest.deferredLostSegmentHandling, Dest.getP, hda, hc, hrc', hfse', hm, hm2, ht, Timer.busy, hrun,
        Dest.fsmFromCheckLimit,
        Dest.fsmFromWaitingForMissingData, Dest.fsmFromTransferCompletion, Dest.fsmFromSendingFinishedPdu,
        Dest.fsmFromWaitingForFinishedAck]
  · obtain ⟨rc, hrc'⟩ := Option.ne_none_iff_exists'.mp hrc
    msimp [Dest.stateMachineWith, hb, Dest.nonIdleFsm, Dest.fsmAdvancementAfterPacketsWereSent, hq, hs,
      Dest.fsmFromReceiving, Dest.fsmFromWaitingForMetadata, Dest.fsmFromCheckLimit, Dest.checkLimitHandling,
      Dest.getP, ht, hrc', hrun,
      Dest.fsmFromWaitingForMissingData, Dest.fsmFromTransferCompletion, Dest.fsmFromSendingFinishedPdu,
      Dest.fsmFromWaitingForFinishedAck]
  · obtain ⟨rc, hrc'⟩ := Option.ne_none_iff_exists'.mp hrc
    msimp [Dest.stateMachineWith, hb, Dest.nonIdleFsm, Dest.fsmAdvancementAfterPacketsWereSent, hq, hs,
      Dest.fsmFromReceiving, Dest.fsmFromWaitingForMetadata, Dest.fsmFromCheckLimit,
      Dest.fsmFromWaitingForMissingData, Dest.fsmFromTransferCompletion, Dest.fsmFromSendingFinishedPdu,
      Dest.fsmFromWaitingForFinishedAck, Dest.handleWaitingForFinishedAck, Dest.handlePositiveAckProcedures,
      Dest.getP, ht, hrc', hrun]

/-- nothing is due at the sender: it waits for the ACK of its EOF or for the Finished PDU and the
timer it waits on (if any) has not run out -/
def QuietS (env : Source.Env) (s : Source.SrcSt) : Prop :=
  (s.step = .WAITING_FOR_EOF_ACK ∧ s.p.remoteCfg ≠ none ∧ ∃ t, s.p.ackTimer = some t ∧ t.timedOut env.now = false) ∨
  (s.step = .WAITING_FOR_FINISHED ∧
    (s.p.checkTimer = none ∨ ∃ t, s.p.checkTimer = some t ∧ t.timedOut env.now = false))

/-- **Sender: an empty call between expiries is a no-op** while it waits for the peer -/
theorem C02_source_empty_call_noop (env : Source.Env) (s : Source.SrcSt) (req : Source.PutReq)
    (hb : s.state = .busy) (hq : s.queue = []) (hreq : s.putReq = some req) (hQ : QuietS env s) :
    Source.stateMachine env none s = .ok () s := by
  rcases hQ with ⟨hs, hrc, t, ht, hrun⟩ | ⟨hs, hct⟩
  · obtain ⟨rc, hrc'⟩ := Option.ne_none_iff_exists'.mp hrc
    msimp [Source.stateMachine, hb, Source.fsmNonIdle, Source.fsmAdvancementAfterPacketsWereSent, hq, hs, hreq,
      Source.fsmFromSendingFileData, Source.fsmFromSendingEof, Source.fsmFromWaitingForEofAck,
      Source.handleWaitingForAck, Source.handleRetransmission, Source.handlePositiveAckProcedures, Source.getP,
      ht, hrc', hrun, Source.fsmFromWaitingForFinished, Source.fsmFromNoticeOfCompletion]
  · rcases hct with hct | ⟨t, ht, hrun⟩
    · cases hm : s.p.conf.mode <;>
      msimp [Source.stateMachine, hb, Source.fsmNonIdle, Source.fsmAdvancementAfterPacketsWereSent, hq, hs, hreq,
        Source.fsmFromSendingFileData, Source.fsmFromSendingEof, Source.fsmFromWaitingForEofAck,
        Source.fsmFromWaitingForFinished, Source.handleWaitForFinish, Source.transmissionMode, hm,
        Source.handleRetransmission, Source.getP, hct, Source.fsmFromNoticeOfCompletion]
    · cases hm : s.p.conf.mode <;>
      msimp [Source.stateMachine, hb, Source.fsmNonIdle, Source.fsmAdvancementAfterPacketsWereSent, hq, hs, hreq,
        Source.fsmFromSendingFileData, Source.fsmFromSendingEof, Source.fsmFromWaitingForEofAck,
        Source.fsmFromWaitingForFinished, Source.handleWaitForFinish, Source.transmissionMode, hm,
        Source.handleRetransmission, Source.getP, ht, hrun, Source.fsmFromNoticeOfCompletion]


/-- non-vacuity: a receiver in the middle of the file data (no timer at all) and a sender waiting for
the ACK of its EOF with the timer running are quiet -/
example (env : Dest.Env) : QuietD env ({ state := .busy, step := .RECEIVING_FILE_DATA } : Dest.DestSt) := Or.inl rfl
example : QuietS ⟨⟨⟨1, 2⟩, true, true, true, true, [], 1000⟩, 500⟩
    ({ state := .busy, step := .WAITING_FOR_EOF_ACK,
       p := { remoteCfg := some ⟨⟨2, 2⟩, none, 256, false, false, .ack, 3, 1000, 3, 3, false, false, 1000, 3⟩,
              ackTimer := some ⟨0, 1000⟩ } } : Source.SrcSt) :=
  Or.inl ⟨rfl, by simp, ⟨0, 1000⟩, rfl, by decide⟩

end Cfdp.C02
