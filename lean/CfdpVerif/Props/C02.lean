import CfdpVerif.Props.C07
import CfdpVerif.Props.C17
/-!
# C02 — every transfer over a fault-free link completes successfully

`C02_unack_delivery` (proved, unbounded in file size, content, segment length and header
configuration): an idle receiver that is handed — once each and in order, one `state_machine` call
per PDU, which is what a fault-free link does with the PDU stream the sender emits
(`C07_metadata_call`, `C07_stream_tiles`, `C07_eof_call`) — the Metadata PDU, the tiles of a file
`F` and the EOF (No error, size `|F|`, checksum of `F`) of an unacknowledged transfer without
closure ends idle, having stored exactly `F` at the destination path, having issued exactly one
Transaction-Finished indication (No error, Data complete, File retained), no fault callback, nothing
queued and no exception.  The proof is an induction over the tiles with the invariant "the
destination file holds the first `k` tiles" (`Receiving`).

Acknowledged mode, closure and arbitrary pacing are NOT covered by this theorem; they are explored
end to end on implementation and model (randomised pacing over the whole configuration cross
product), see MANIFEST / evidence.
-/
set_option linter.unusedSimpArgs false
set_option linter.unusedVariables false

namespace Cfdp.C02

open Cfdp Cfdp.Dest

/-- a PDU header the receiver admits in an unacknowledged transaction from a known sender -/
structure Admissible (env : Env) (rc : RemoteCfg) (h : Hdr) : Prop where
  hdir : h.dir = .toRecv
  hdst : h.dst.val = env.cfg.entityId.val
  hsrc : lookupRemote env.cfg.remotes h.src.val = some rc
  hmode : h.mode = .unack

/-- receiver in the middle of an unacknowledged file transfer: stored content `P`, nothing queued,
no fault so far -/
structure Receiving (d : DestSt) (dst : String) (P : List UInt8) (rc : RemoteCfg) (t : Tid) (cks : Nat) : Prop where
  hbusy : d.state = .busy
  hstep : d.step = .RECEIVING_FILE_DATA
  hready : d.numReady = 0
  hqueue : d.queue = []
  hmode : d.p.conf.mode = .unack
  hname : d.p.fileName = dst
  hfile : d.fs.get dst = some (.file P)
  hprog : d.p.progress = P.length
  hnoEof : d.p.fileSizeEof = none
  hrc : d.p.remoteCfg = some rc
  htid : d.p.tid = some t
  hrej : d.rejects = []
  hcks : d.p.cksType = cks
  hclosure : d.p.closure = false
  hcancel : d.p.canceled = false
  hmo : d.p.metadataOnly = false
  hflts : d.flts = []
  hfin : d.p.fin = ⟨ccNoError, dcIncomplete, fsRetained, none⟩

/-- state after a tile -/
def afterTile (d : DestSt) (dst : String) (P data : List UInt8) (env : Env) (t : Tid) : DestSt :=
  { d with fs := d.fs.set dst (.file (P ++ data)),
           p := { d.p with progress := P.length + data.length },
           inds := d.inds ++ (if env.cfg.indSegRecv then [.segRecv (some t) P.length data.length] else []) }

/-- **One tile.**  A File Data PDU at the current end of the stored content appends its payload:
the destination file becomes `P ++ data`; nothing is queued, no fault. -/
theorem C02_tile (env : Env) (d : DestSt) (dst : String) (P data : List UInt8) (rc : RemoteCfg) (t : Tid)
    (cks : Nat) (h : Hdr) (hr : Receiving d dst P rc t cks) (ha : Admissible env rc h) (hd : data ≠ []) :
    stateMachine env (some (.fd h P.length data)) d = .ok () (afterTile d dst P data env t) ∧
    Receiving (afterTile d dst P data env t) dst (P ++ data) rc t cks := by
  have hw : Fs.writeBytes P data P.length = P ++ data := by
    have : data.isEmpty = false := by cases data <;> simp_all
    simp [Fs.writeBytes, this]
  have hfin' : d.p.fin.fstat = fsRetained := by rw [hr.hfin]
  constructor
  · cases hi : env.cfg.indSegRecv <;>
    msimp [stateMachine, stateMachineWith, checkInsertedPacket, Pdu.hdr, ha.hdir, ha.hdst, ha.hsrc, Pdu.kind,
      Route.getPacketDestination, hr.hbusy, transmissionMode, hr.hmode, nonIdleFsm,
      fsmAdvancementAfterPacketsWereSent, hr.hqueue, hr.hstep, fsmFromReceiving, handleFdOrEofPdu, handleFdPdu,
      fdIndication, hi, getP, emitInd, hr.htid, fdLostSegments, fdWrite, vfsWriteData, hr.hrej, hr.hname,
      Fs.writeData, hr.hfile, hw, fdAfterWrite, sizeErrOf, modP, hr.hnoEof, hr.hprog, fsmFromWaitingForMetadata,
      fsmFromCheckLimit, fsmFromWaitingForMissingData, fsmFromTransferCompletion, fsmFromSendingFinishedPdu,
      fsmFromWaitingForFinishedAck, afterTile, hr.hfin]
  · exact { hbusy := hr.hbusy, hstep := hr.hstep, hready := hr.hready, hqueue := hr.hqueue, hmode := hr.hmode,
            hname := hr.hname, hfile := by simp [afterTile, Fs.C17.get_set_same],
            hprog := by simp [afterTile], hnoEof := hr.hnoEof, hrc := hr.hrc, htid := hr.htid, hrej := hr.hrej,
            hcks := hr.hcks, hclosure := hr.hclosure, hcancel := hr.hcancel, hmo := hr.hmo, hflts := hr.hflts,
            hfin := hr.hfin }

/-- parameter block after the Metadata PDU -/
def mdParams (h : Hdr) (rc : RemoteCfg) (cks size : Nat) (dname : String) : Params :=
  { conf := ⟨.toSend, h.mode, h.crc, h.large, h.src, h.dst, h.seq⟩, tid := some ⟨h.src, h.seq⟩,
    remoteCfg := some rc, cksType := cks, closure := false, fileName := dname, fileSize := some size,
    fin := ⟨ccNoError, dcIncomplete, fsRetained, none⟩ }

/-- state after the Metadata PDU -/
def afterMd (env : Env) (d : DestSt) (h : Hdr) (rc : RemoteCfg) (cks size : Nat) (sname dname : String)
    (msgs : Option (List Msg)) : DestSt :=
  { d with state := .busy, step := .RECEIVING_FILE_DATA, fs := d.fs.set dname (.file []),
           p := mdParams h rc cks size dname,
           inds := d.inds ++ [.mdRecv (some ⟨h.src, h.seq⟩) h.src (some size) (some sname) (some dname) msgs] }

/-- **Metadata.**  An idle receiver that gets the Metadata PDU of an unacknowledged transfer without
closure creates (or truncates) the destination file — given as a file path whose parent exists —
and is ready to receive, with an empty file. -/
theorem C02_metadata (env : Env) (d : DestSt) (h : Hdr) (rc : RemoteCfg) (cks size : Nat)
    (sname dname : String) (msgs : Option (List Msg)) (ha : Admissible env rc h)
    (hidle : d.state = .idle) (hq : d.queue = []) (hr : d.numReady = 0) (hrej : d.rejects = [])
    (hfl : d.flts = [])
    (hnd : Fs.isDir d.fs dname = false)
    (hok : (∃ old, d.fs.get dname = some (.file old)) ∨
           (Fs.exists' d.fs dname = false ∧ Fs.parentIsDir d.fs dname = true)) :
    stateMachine env (some (.md h false cks size (some sname) (some dname) msgs)) d =
      .ok () (afterMd env d h rc cks size sname dname msgs) ∧
    Receiving (afterMd env d h rc cks size sname dname msgs) dname [] rc ⟨h.src, h.seq⟩ cks := by
  constructor
  · rcases hok with ⟨old, hf⟩ | ⟨h1, h2⟩
    · have hex : Fs.exists' d.fs dname = true := by simp [Fs.exists', hf]
      have htr : Fs.truncateFile d.fs dname = .ok (d.fs.set dname (.file [])) := by simp [Fs.truncateFile, hf]
      msimp [stateMachine, stateMachineWith, checkInsertedPacket, Pdu.hdr, ha.hdir, ha.hdst, ha.hsrc, Pdu.kind,
        Route.getPacketDestination, hidle, transmissionMode, idleFsm, startTransaction, modP,
        commonFirstPacketHandler, handleMetadataPacket, getP, initVfsHandling, hnd, hex, htr, emitInd, hr,
        nonIdleFsm, fsmAdvancementAfterPacketsWereSent, hq, fsmFromReceiving, handleFdOrEofPdu,
        fsmFromWaitingForMetadata, fsmFromCheckLimit, fsmFromWaitingForMissingData, fsmFromTransferCompletion,
        fsmFromSendingFinishedPdu, fsmFromWaitingForFinishedAck, afterMd, mdParams, ha.hmode]
    · have hc : Fs.createFile d.fs dname = (Fs.CREATE_SUCCESS, d.fs.set dname (.file [])) := by
        simp [Fs.createFile, h1, h2]
      msimp [stateMachine, stateMachineWith, checkInsertedPacket, Pdu.hdr, ha.hdir, ha.hdst, ha.hsrc, Pdu.kind,
        Route.getPacketDestination, hidle, transmissionMode, idleFsm, startTransaction, modP,
        commonFirstPacketHandler, handleMetadataPacket, getP, initVfsHandling, hnd, h1, hc, emitInd, hr,
        nonIdleFsm, fsmAdvancementAfterPacketsWereSent, hq, fsmFromReceiving, handleFdOrEofPdu,
        fsmFromWaitingForMetadata, fsmFromCheckLimit, fsmFromWaitingForMissingData, fsmFromTransferCompletion,
        fsmFromSendingFinishedPdu, fsmFromWaitingForFinishedAck, afterMd, mdParams, ha.hmode]
  · exact { hbusy := rfl, hstep := rfl, hready := by simp [afterMd, hr], hqueue := by simp [afterMd, hq],
            hmode := by simp [afterMd, mdParams, ha.hmode], hname := rfl,
            hfile := by simp [afterMd, Fs.C17.get_set_same], hprog := rfl, hnoEof := rfl, hrc := rfl,
            htid := rfl, hrej := by simp [afterMd, hrej], hcks := rfl, hclosure := rfl, hcancel := rfl,
            hmo := rfl, hflts := by simp [afterMd, hfl], hfin := rfl }

/-- state after the EOF PDU of a complete transfer -/
def afterEof (env : Env) (d : DestSt) (t : Tid) : DestSt :=
  { d with state := .idle, step := .IDLE, p := {},
           inds := d.inds ++ (if env.cfg.indEofRecv then [.eofRecv t] else []) ++
             (if env.cfg.indFinished
               then [.finished (some t) ⟨ccNoError, dcComplete, fsRetained, none⟩] else []) }

/-- **EOF.**  When everything has been stored, the EOF (No error) whose size is the stored length and
whose checksum is the filestore's checksum of the stored file completes the transfer in that same
call: one Transaction-Finished (No error, Data complete, File retained), handler idle, file
untouched, nothing queued, no fault callback. -/
theorem C02_eof (env : Env) (d : DestSt) (dst : String) (P crc : List UInt8) (rc : RemoteCfg) (t : Tid)
    (cks : Nat) (h : Hdr) (hr : Receiving d dst P rc t cks) (ha : Admissible env rc h)
    (hver : cks = 15 ∨ Fs.calcChecksum d.fs (Checksum.CksType.ofNat cks) dst P.length 4096 = .ok crc) :
    stateMachine env (some (.eof h ccNoError crc P.length none)) d = .ok () (afterEof env d t) := by
  have hnlt : ¬ P.length < P.length := by omega
  rcases hver with hnull | hc
  · cases hi : env.cfg.indEofRecv <;> cases hf : env.cfg.indFinished <;>
    msimp [stateMachine, stateMachineWith, checkInsertedPacket, Pdu.hdr, ha.hdir, ha.hdst, ha.hsrc, Pdu.kind,
      Route.getPacketDestination, hr.hbusy, transmissionMode, hr.hmode, nonIdleFsm,
      fsmAdvancementAfterPacketsWereSent, hr.hqueue, hr.hstep, fsmFromReceiving, handleFdOrEofPdu, handleEofPdu,
      modP, hi, getP, hr.htid, emitInd, handleNoErrorEof, hr.hprog, hnlt, noErrorEofVerify, checksumVerify,
      hr.hcks, hnull, markComplete, fileTransferCompleteTransition, fsmFromWaitingForMetadata, fsmFromCheckLimit,
      fsmFromWaitingForMissingData, fsmFromTransferCompletion, handleTransferCompletion, noticeOfCompletion,
      hr.hcancel, hf, hr.hclosure, resetInternal, fsmFromSendingFinishedPdu, fsmFromWaitingForFinishedAck,
      afterEof, hr.hfin, ccNoError, dtEof]
  · by_cases hnull : cks = 15
    · subst hnull
      cases hi : env.cfg.indEofRecv <;> cases hf : env.cfg.indFinished <;>
      msimp [stateMachine, stateMachineWith, checkInsertedPacket, Pdu.hdr, ha.hdir, ha.hdst, ha.hsrc, Pdu.kind,
        Route.getPacketDestination, hr.hbusy, transmissionMode, hr.hmode, nonIdleFsm,
        fsmAdvancementAfterPacketsWereSent, hr.hqueue, hr.hstep, fsmFromReceiving, handleFdOrEofPdu, handleEofPdu,
        modP, hi, getP, hr.htid, emitInd, handleNoErrorEof, hr.hprog, hnlt, noErrorEofVerify, checksumVerify,
        hr.hcks, markComplete, fileTransferCompleteTransition, fsmFromWaitingForMetadata, fsmFromCheckLimit,
        fsmFromWaitingForMissingData, fsmFromTransferCompletion, handleTransferCompletion, noticeOfCompletion,
        hr.hcancel, hf, hr.hclosure, resetInternal, fsmFromSendingFinishedPdu, fsmFromWaitingForFinishedAck,
        afterEof, hr.hfin, ccNoError, dtEof]
    · cases hi : env.cfg.indEofRecv <;> cases hf : env.cfg.indFinished <;>
      msimp [stateMachine, stateMachineWith, checkInsertedPacket, Pdu.hdr, ha.hdir, ha.hdst, ha.hsrc, Pdu.kind,
        Route.getPacketDestination, hr.hbusy, transmissionMode, hr.hmode, nonIdleFsm,
        fsmAdvancementAfterPacketsWereSent, hr.hqueue, hr.hstep, fsmFromReceiving, handleFdOrEofPdu, handleEofPdu,
        modP, hi, getP, hr.htid, emitInd, handleNoErrorEof, hr.hprog, hnlt, noErrorEofVerify, checksumVerify,
        hr.hcks, hnull, hr.hmo, hr.hname, hc, markComplete, fileTransferCompleteTransition,
        fsmFromWaitingForMetadata, fsmFromCheckLimit,
        fsmFromWaitingForMissingData, fsmFromTransferCompletion, handleTransferCompletion, noticeOfCompletion,
        hr.hcancel, hf, hr.hclosure, resetInternal, fsmFromSendingFinishedPdu, fsmFromWaitingForFinishedAck,
        afterEof, hr.hfin, ccNoError, dtEof]

def isFinished : Ind → Bool
  | .finished .. => true
  | _ => false

/-- feed a list of payloads as File Data PDUs, each at the current end of the stored content -/
def feed (env : Env) (h : Hdr) : List (List UInt8) → Nat → DestSt → Option DestSt
  | [], _, d => some d
  | c :: cs, off, d =>
    match stateMachine env (some (.fd h off c)) d with
    | .ok _ d' => feed env h cs (off + c.length) d'
    | .error _ _ => none

/-- **All tiles, by induction.**  Feeding any list of non-empty payloads in order, each at the offset
where the previous one ended (which is what the sender's tiles are, `C07_stream_tiles`), never
raises and leaves the receiver with exactly their concatenation appended to the stored content. -/
theorem C02_tiles (env : Env) (h : Hdr) (rc : RemoteCfg) (t : Tid) (cks : Nat) (dst : String)
    (ha : Admissible env rc h) :
    ∀ (cs : List (List UInt8)) (P : List UInt8) (d : DestSt), (∀ c ∈ cs, c ≠ []) →
      Receiving d dst P rc t cks →
      ∃ d', feed env h cs P.length d = some d' ∧ Receiving d' dst (P ++ cs.flatten) rc t cks ∧
        (∀ q, q ≠ dst → d'.fs.get q = d.fs.get q) ∧ d'.queue = [] ∧ d'.flts = [] ∧
        d'.inds.filter isFinished = d.inds.filter isFinished := by
  intro cs
  induction cs with
  | nil => intro P d _ hr; exact ⟨d, rfl, by simpa using hr, fun _ _ => rfl, hr.hqueue, hr.hflts, rfl⟩
  | cons c cs ih =>
    intro P d hne hr
    have hc : c ≠ [] := hne c (by simp)
    obtain ⟨hcall, hr'⟩ := C02_tile env d dst P c rc t cks h hr ha hc
    obtain ⟨d', hf, hR, hother, hq, hfl, hfin⟩ := ih (P ++ c) _ (fun x hx => hne x (by simp [hx])) hr'
    refine ⟨d', ?_, ?_, ?_, hq, hfl, ?_⟩
    · simp only [feed, hcall]
      simpa using hf
    · simpa [List.append_assoc] using hR
    · intro q hq'
      rw [hother q hq']
      simp [afterTile, Fs.C17.get_set_other _ _ _ _ hq']
    · rw [hfin]
      simp only [afterTile]
      split <;> simp [isFinished]

/-- **Delivery over a fault-free link, unacknowledged mode without closure.**  For every file content
`F`, every way of cutting it into non-empty consecutive pieces `cs` (the sender's tiles for any
segment length ≥ 1), every header configuration the receiver admits, checksum type and indication
setting: Metadata, the pieces in order, EOF — one call each — end with

* the receiver idle, nothing queued, no fault callback, no exception in any call;
* the destination file equal to `F`, every other path as before;
* exactly one Transaction-Finished indication, reporting No error / Data complete / File retained
  (when that indication is enabled). -/
theorem C02_unack_delivery (env : Env) (d0 : DestSt) (h : Hdr) (rc : RemoteCfg) (cks : Nat)
    (sname dname : String) (msgs : Option (List Msg)) (F crc : List UInt8) (cs : List (List UInt8))
    (ha : Admissible env rc h)
    (hidle : d0.state = .idle) (hq : d0.queue = []) (hr : d0.numReady = 0) (hrej : d0.rejects = [])
    (hfl : d0.flts = []) (hnd : Fs.isDir d0.fs dname = false)
    (hok : (∃ old, d0.fs.get dname = some (.file old)) ∨
           (Fs.exists' d0.fs dname = false ∧ Fs.parentIsDir d0.fs dname = true))
    (hcs : cs.flatten = F) (hne : ∀ c ∈ cs, c ≠ [])
    (hcrc : cks = 15 ∨ ∀ fs : Fs, fs.get dname = some (.file F) →
      Fs.calcChecksum fs (Checksum.CksType.ofNat cks) dname F.length 4096 = .ok crc) :
    ∃ d1 d2 d3,
      stateMachine env (some (.md h false cks F.length (some sname) (some dname) msgs)) d0 = .ok () d1 ∧
      feed env h cs 0 d1 = some d2 ∧
      stateMachine env (some (.eof h ccNoError crc F.length none)) d2 = .ok () d3 ∧
      d3.state = .idle ∧ d3.queue = [] ∧ d3.flts = [] ∧
      d3.fs.get dname = some (.file F) ∧ (∀ q, q ≠ dname → d3.fs.get q = d0.fs.get q) ∧
      d3.inds.filter isFinished = d0.inds.filter isFinished ++
        (if env.cfg.indFinished
          then [.finished (some ⟨h.src, h.seq⟩) ⟨ccNoError, dcComplete, fsRetained, none⟩] else []) := by
  obtain ⟨hmd, hR1⟩ := C02_metadata env d0 h rc cks F.length sname dname msgs ha hidle hq hr hrej hfl hnd hok
  obtain ⟨d2, hfeed, hR2, hother, hq2, hfl2, hfin2⟩ := C02_tiles env h rc _ cks dname ha cs [] _ hne hR1
  simp only [List.nil_append, hcs, List.length_nil] at hfeed hR2
  have hver : cks = 15 ∨ Fs.calcChecksum d2.fs (Checksum.CksType.ofNat cks) dname F.length 4096 = .ok crc := by
    rcases hcrc with h1 | h1
    · exact Or.inl h1
    · exact Or.inr (h1 d2.fs hR2.hfile)
  have heof := C02_eof env d2 dname F crc rc _ cks h hR2 ha hver
  refine ⟨_, d2, _, hmd, hfeed, heof, rfl, ?_, ?_, ?_, ?_, ?_⟩
  · simp [afterEof, hq2]
  · simp [afterEof, hfl2]
  · simp [afterEof, hR2.hfile]
  · intro q hq'
    simp only [afterEof]
    rw [hother q hq']
    simp [afterMd, Fs.C17.get_set_other _ _ _ _ hq']
  · simp only [afterEof, List.filter_append, hfin2]
    have h1 : (afterMd env d0 h rc cks F.length sname dname msgs).inds.filter isFinished =
        d0.inds.filter isFinished := by simp [afterMd, isFinished]
    rw [h1]
    cases env.cfg.indEofRecv <;> cases env.cfg.indFinished <;> simp [isFinished]

end Cfdp.C02
