import CfdpVerif.Props.C14
import CfdpVerif.Props.C08
import CfdpVerif.Lemmas.InvSourceBound
import CfdpVerif.Lemmas.InvDestBound
/-!
# C04 — retry limits are honoured exactly; a silent peer cannot hang a transaction

Model: the three timer-driven retry procedures — sender `handlePositiveAckProcedures` (EOF awaiting
its ACK), receiver `handlePositiveAckProcedures` (Finished awaiting its ACK), receiver
`deferredLostSegmentHandling` (NAK sequences awaiting missing data).  An *expiry* is a call at which
the procedure's timer has run out (`Timer.timedOut`).  For each procedure: a call before the expiry
changes nothing; an expiry with `counter + 1 < limit` re-sends and adds exactly one to the counter;
an expiry with `counter + 1 ≥ limit` (`=` for the NAK procedure) declares the limit fault and does
not re-send; progress resets the counter.  `C04_expiry_count` turns this into "exactly at the N-th
consecutive expiry"; the abandon rule for a timed-out cancellation exchange is
`C14_source_fault_in_cancel_exchange` / `C14_dest_fault_in_cancel_exchange`.
-/
set_option linter.unusedSimpArgs false
set_option linter.unusedVariables false

namespace Cfdp.C04

open Cfdp

/-! ### sender: EOF awaiting its ACK -/

theorem C04_source_no_early_expiry (env : Source.Env) (s : Source.SrcSt) (t : Timer) (rc : RemoteCfg)
    (ht : s.p.ackTimer = some t) (hrc : s.p.remoteCfg = some rc) (hbusy : t.timedOut env.now = false) :
    Source.handlePositiveAckProcedures env s = .ok () s := by
  msimp [Source.handlePositiveAckProcedures, Source.getP, ht, hrc, hbusy]

/-- an expiry below the limit: exactly one EOF PDU is re-sent (same condition code as the EOF being
acknowledged, size = progress, checksum of that prefix of the file), the counter grows by one, the timer restarts
at the current time; no fault is declared -/
theorem C04_source_expiry_resends (env : Source.Env) (s : Source.SrcSt) (t : Timer) (rc : RemoteCfg)
    (req : Source.PutReq) (src : String) (F cks : List UInt8) (cond : Nat) (tid : Tid)
    (ht : s.p.ackTimer = some t) (hrc : s.p.remoteCfg = some rc) (hexp : t.timedOut env.now = true)
    (hlim : s.p.ackCounter + 1 < rc.ackLim)
    (hreq : s.putReq = some req) (hsrc : req.src = some src) (hmo : s.p.metadataOnly = false)
    (hfile : s.fs.get src = some (.file F)) (hnull : Checksum.CksType.ofNat rc.cks ≠ .null)
    (hcks : Checksum.calcChecksum (Checksum.CksType.ofNat rc.cks) F s.p.progress s.p.segmentLen = .ok cks)
    (hlen : cks.length = 4) (hcond : s.p.condCodeEof = some cond) (htid : s.p.tid = some tid) :
    ∃ s', Source.handlePositiveAckProcedures env s = .ok () s' ∧
      s'.queue = s.queue ++ [Source.mkEof s.p.conf cond cks s.p.progress] ∧
      s'.p.ackCounter = s.p.ackCounter + 1 ∧ s'.p.ackTimer = some ⟨env.now, t.timeout⟩ ∧
      s'.flts = s.flts ∧ s'.step = s.step ∧ s'.state = s.state := by
  have hl : ¬ rc.ackLim ≤ s.p.ackCounter + 1 := by omega
  have hc : Fs.calcChecksum s.fs (Checksum.CksType.ofNat rc.cks) src s.p.progress s.p.segmentLen = .ok cks := by
    simp [Fs.calcChecksum, hnull, hfile, hcks]
  cases hi : env.cfg.indEofSent <;>
  · apply Exists.intro
    constructor
    · msimp [Source.handlePositiveAckProcedures, Source.getP, ht, hrc, hexp, hl, Source.modP,
        Source.checksumCalculation, hreq, hsrc, hmo, hc,
        Source.prepareEofPdu, hcond, hlen, Source.addPacket, hi, htid, Source.emitInd]
      rfl
    · simp [Timer.reset]

/-- an expiry at the limit declares Positive-ACK-limit-reached and re-sends nothing itself: the call
is exactly the fault declaration (whose effect the table decides, `Props/C14`) -/
theorem C04_source_expiry_at_limit (env : Source.Env) (s : Source.SrcSt) (t : Timer) (rc : RemoteCfg)
    (ht : s.p.ackTimer = some t) (hrc : s.p.remoteCfg = some rc) (hexp : t.timedOut env.now = true)
    (hlim : s.p.ackCounter + 1 ≥ rc.ackLim) :
    Source.handlePositiveAckProcedures env s = Source.declareFault env ccPositiveAckLimit s := by
  have hl : rc.ackLim ≤ s.p.ackCounter + 1 := by omega
  msimp [Source.handlePositiveAckProcedures, Source.getP, ht, hrc, hexp, hl]

/-- progress: the awaited ACK (EOF) leaves the wait; the counter is started from zero whenever the
procedure is (re)started -/
theorem C04_source_ack_leaves_wait (env : Source.Env) (s : Source.SrcSt) (h : Hdr) (c ts : Nat) :
    Source.handleWaitingForAck env (some (.ack h dtEof c ts)) s =
      .ok () { s with step := .WAITING_FOR_FINISHED } := by
  msimp [Source.handleWaitingForAck, Source.handleRetransmission]

theorem C04_source_procedure_start (env : Source.Env) (s : Source.SrcSt) (rc : RemoteCfg)
    (hrc : s.p.remoteCfg = some rc) :
    Source.startPositiveAckProcedure env s =
      .ok () { s with step := .WAITING_FOR_EOF_ACK,
                      p := { s.p with ackTimer := some ⟨env.now, rc.ackMs⟩, ackCounter := 0 } } := by
  msimp [Source.startPositiveAckProcedure, Source.getP, hrc, Source.modP]

/-! ### receiver: Finished awaiting its ACK -/

theorem C04_dest_no_early_expiry (env : Dest.Env) (d : Dest.DestSt) (t : Timer) (rc : RemoteCfg)
    (r : Dest.DM Unit)
    (ht : d.p.ackTimer = some t) (hrc : d.p.remoteCfg = some rc) (hbusy : t.timedOut env.now = false) :
    Dest.handlePositiveAckProcedures env r d = .ok () d := by
  msimp [Dest.handlePositiveAckProcedures, Dest.getP, ht, hrc, hbusy]

theorem C04_dest_expiry_resends (env : Dest.Env) (d : Dest.DestSt) (t : Timer) (rc : RemoteCfg)
    (r : Dest.DM Unit)
    (ht : d.p.ackTimer = some t) (hrc : d.p.remoteCfg = some rc) (hexp : t.timedOut env.now = true)
    (hlim : d.p.ackCounter + 1 < rc.ackLim) (hq : d.numReady = 0) :
    Dest.handlePositiveAckProcedures env r d =
      .ok () { d with queue := d.queue ++ [Dest.mkFin d.p.conf d.p.fin], numReady := 1,
                      p := { d.p with ackTimer := some ⟨env.now, t.timeout⟩,
                                      ackCounter := d.p.ackCounter + 1 } } := by
  have hl : ¬ rc.ackLim ≤ d.p.ackCounter + 1 := by omega
  msimp [Dest.handlePositiveAckProcedures, Dest.getP, ht, hrc, hexp, hl, Dest.resendFinished, Dest.modP,
    Dest.prepareFinishedPdu, hq, Dest.addPacket, Timer.reset]

/-- at the limit: the fault is declared; with the transaction already cancelled (Finished (cancel)
exchange) and the default table this abandons (`C14_dest_fault_in_cancel_exchange`) and the call
ends with the handler idle, re-sending nothing -/
theorem C04_dest_expiry_at_limit_abandons (env : Dest.Env) (d : Dest.DestSt) (t : Timer) (rc : RemoteCfg)
    (r : Dest.DM Unit) (tid : Tid)
    (ht : d.p.ackTimer = some t) (hrc : d.p.remoteCfg = some rc) (hexp : t.timedOut env.now = true)
    (hlim : d.p.ackCounter + 1 ≥ rc.ackLim) (htid : d.p.tid = some tid)
    (hfh : d.faults.lookup ccPositiveAckLimit = some fhCancel)
    (hx : C14.Dest.inCancelExchange d = true) :
    Dest.handlePositiveAckProcedures env r d =
      .ok () { d with state := .idle, step := .IDLE, p := {},
                      flts := d.flts ++ [⟨fhAbandon, tid, d.p.fin.cond, d.p.progress⟩] } := by
  have hl : rc.ackLim ≤ d.p.ackCounter + 1 := by omega
  have := C14.C14_dest_fault_in_cancel_exchange d ccPositiveAckLimit tid htid hfh hx
  msimp [Dest.handlePositiveAckProcedures, Dest.getP, ht, hrc, hexp, hl, this]

/-- at the limit, first time (not yet cancelled): the fault cancels the transaction and the nested
call (`recurse`) completes it, i.e. sends the Finished (cancel) -/
theorem C04_dest_expiry_at_limit_cancels (env : Dest.Env) (d : Dest.DestSt) (t : Timer) (rc : RemoteCfg)
    (r : Dest.DM Unit) (tid : Tid)
    (ht : d.p.ackTimer = some t) (hrc : d.p.remoteCfg = some rc) (hexp : t.timedOut env.now = true)
    (hlim : d.p.ackCounter + 1 ≥ rc.ackLim) (htid : d.p.tid = some tid) (hb : d.state = .busy)
    (hfh : d.faults.lookup ccPositiveAckLimit = some fhCancel)
    (hx : C14.Dest.inCancelExchange d = false) :
    Dest.handlePositiveAckProcedures env r d =
      r { d with step := .TRANSFER_COMPLETION,
                 p := { d.p with fin := { d.p.fin with cond := ccPositiveAckLimit }, canceled := true },
                 flts := d.flts ++ [⟨fhCancel, tid, ccPositiveAckLimit, d.p.progress⟩] } := by
  have hl : rc.ackLim ≤ d.p.ackCounter + 1 := by omega
  have := C14.C14_dest_cancel d ccPositiveAckLimit tid htid hfh hx
  msimp [Dest.handlePositiveAckProcedures, Dest.getP, ht, hrc, hexp, hl, this, hb]

/-- progress: any ACK ends the transaction -/
theorem C04_dest_ack_ends (env : Dest.Env) (d : Dest.DestSt) (h : Hdr) (o c ts : Nat) (r : Dest.DM Unit) :
    Dest.handleWaitingForFinishedAck env (some (.ack h o c ts)) r d =
      .ok () { d with state := .idle, step := .IDLE, p := {} } := by
  msimp [Dest.handleWaitingForFinishedAck, Dest.resetInternal]

/-- **a re-received EOF is not progress** (half-silent link: the sender did not get the ACK of its EOF
and re-sends it while the receiver waits for the ACK of its Finished PDU): the EOF is acknowledged
again — exactly one ACK (EOF) — and nothing else happens: no Finished PDU outside the timer, the retry
counter, the timer and the step are untouched, so the limit is still reached at the N-th expiry. -/
theorem C04_dest_eof_again_not_progress (env : Dest.Env) (d : Dest.DestSt) (h : Hdr) (cond size : Nat)
    (cks : List UInt8) (floc : Option EntityId) (r : Dest.DM Unit) :
    Dest.handleWaitingForFinishedAck env (some (.eof h cond cks size floc)) r d =
      .ok () { d with queue := d.queue ++ [Dest.mkAck d.p.conf dtEof d.p.fin.cond tsActive],
                      numReady := d.numReady + 1 } := by
  msimp [Dest.handleWaitingForFinishedAck, Dest.prepareEofAckPacket, Dest.getP, Dest.addPacket]

/-! ### receiver: NAK sequences awaiting missing data -/

theorem C04_nak_no_early_expiry (env : Dest.Env) (d : Dest.DestSt) (t : Timer) (rc : RemoteCfg) (fse : Nat)
    (ha : d.p.deferredActive = true) (hnc : d.p.canceled = false) (hrc : d.p.remoteCfg = some rc) (hf : d.p.fileSizeEof = some fse)
    (hmiss : d.p.trk ≠ [] ∨ d.p.metadataMissing = true)
    (ht : d.p.procTimer = some t) (hbusy : t.timedOut env.now = false) :
    Dest.deferredLostSegmentHandling env d = .ok () d := by
  have hm : ¬(d.p.trk = [] ∧ d.p.metadataMissing = false) := by
    rcases hmiss with h | h <;> simp [h]
  msimp [Dest.deferredLostSegmentHandling, Dest.getP, ha, hnc, hrc, hf, hm, ht, Timer.busy, hbusy]

/-- an expiry below the limit re-issues the whole NAK sequence and adds exactly one to the counter -/
theorem C04_nak_expiry_reissues (env : Dest.Env) (d : Dest.DestSt) (t : Timer) (rc : RemoteCfg)
    (fse maxSegs : Nat)
    (ha : d.p.deferredActive = true) (hnc : d.p.canceled = false) (hrc : d.p.remoteCfg = some rc) (hf : d.p.fileSizeEof = some fse)
    (hmiss : d.p.trk ≠ [] ∨ d.p.metadataMissing = true)
    (ht : d.p.procTimer = some t) (hexp : t.timedOut env.now = true)
    (hlim : d.p.nakCounter + 1 ≠ rc.nakLim) (hmax : maxSegReqs rc.maxPkt d.p.conf = some maxSegs) :
    let naks := Dest.nakSequence d.p.conf fse maxSegs d.p.metadataMissing d.p.trk
    Dest.deferredLostSegmentHandling env d =
      .ok () { d with queue := d.queue ++ naks, numReady := d.numReady + naks.length,
                      p := { d.p with nakCounter := d.p.nakCounter + 1,
                                      procTimer := some ⟨env.now, t.timeout⟩ } } := by
  have hm : ¬(d.p.trk = [] ∧ d.p.metadataMissing = false) := by
    rcases hmiss with h | h <;> simp [h]
  msimp [Dest.deferredLostSegmentHandling, Dest.getP, ha, hnc, hrc, hf, hm, ht, Timer.busy, hexp, hlim, hmax,
    Dest.addPackets, Dest.modP, Timer.reset]

/-- an expiry with `counter + 1 = limit` declares NAK-limit-reached and sends no NAK -/
theorem C04_nak_expiry_at_limit (env : Dest.Env) (d : Dest.DestSt) (t : Timer) (rc : RemoteCfg) (fse : Nat)
    (ha : d.p.deferredActive = true) (hnc : d.p.canceled = false) (hrc : d.p.remoteCfg = some rc) (hf : d.p.fileSizeEof = some fse)
    (hmiss : d.p.trk ≠ [] ∨ d.p.metadataMissing = true)
    (ht : d.p.procTimer = some t) (hexp : t.timedOut env.now = true)
    (hlim : d.p.nakCounter + 1 = rc.nakLim) :
    Dest.deferredLostSegmentHandling env d =
      (do let _ ← Dest.declareFault ccNakLimit; pure ()) d := by
  have hm : ¬(d.p.trk = [] ∧ d.p.metadataMissing = false) := by
    rcases hmiss with h | h <;> simp [h]
  msimp [Dest.deferredLostSegmentHandling, Dest.getP, ha, hnc, hrc, hf, hm, ht, Timer.busy, hexp, hlim]

/-- progress resets the NAK activity counter and restarts the timer -/
theorem C04_nak_progress_resets (env : Dest.Env) (d : Dest.DestSt) (t : Timer)
    (ht : d.p.procTimer = some t) :
    Dest.resetNakActivityParameters env d =
      .ok () { d with p := { d.p with nakCounter := 0, procTimer := some ⟨env.now, t.timeout⟩ } } := by
  msimp [Dest.resetNakActivityParameters, Dest.getP, ht, Dest.modP, Timer.reset]

/-- the arrival of the re-requested Metadata PDU is progress: whatever the Metadata handling did
(`d1`), when the deferred procedure is still active afterwards the NAK activity counter is back to
zero and the NAK timer restarted from now — and nothing is queued by this step. -/
theorem C04_metadata_arrival_is_progress (env : Dest.Env) (d d1 : Dest.DestSt) (t : Timer)
    (h : Hdr) (closure : Bool) (cks size : Nat) (sname dname : String) (msgs : List Msg)
    (hmd : Dest.handleMetadataPacket h closure cks size sname dname msgs d = .ok () d1)
    (ha : d1.p.deferredActive = true) (ht : d1.p.procTimer = some t) :
    Dest.handleWaitingForMissingMetadata env (some (.md h closure cks size sname dname msgs)) d =
      .ok () { d1 with
        p := { d1.p with nakCounter := 0, procTimer := some ⟨env.now, t.timeout⟩ },
        step := if d1.step = .RECEIVING_FILE_DATA then .WAITING_FOR_MISSING_DATA else d1.step } := by
  by_cases hs : d1.step = .RECEIVING_FILE_DATA <;>
  msimp [Dest.handleWaitingForMissingMetadata, hmd, Dest.getP, ha, ht, Dest.resetNakActivityParameters,
    Dest.modP, Timer.reset, hs]

/-- … and the deferred procedure, run later in the same call, issues no NAK sequence: the timer was
just restarted (interval `> 0`), so this call is "before the expiry" (`C04_nak_no_early_expiry`). -/
theorem C04_metadata_arrival_issues_nothing (env : Dest.Env) (d1 : Dest.DestSt) (t : Timer) (rc : RemoteCfg)
    (fse : Nat) (st : Dest.DStep)
    (ha : d1.p.deferredActive = true) (hnc : d1.p.canceled = false) (hrc : d1.p.remoteCfg = some rc)
    (hf : d1.p.fileSizeEof = some fse) (hmiss : d1.p.trk ≠ [] ∨ d1.p.metadataMissing = true)
    (hpos : 0 < t.timeout) :
    let d2 : Dest.DestSt := { d1 with
        p := { d1.p with nakCounter := 0, procTimer := some ⟨env.now, t.timeout⟩ }, step := st }
    Dest.deferredLostSegmentHandling env d2 = .ok () d2 := by
  intro d2
  exact C04_nak_no_early_expiry env d2 ⟨env.now, t.timeout⟩ rc fse ha hnc hrc hf hmiss rfl
    (by simp [Timer.timedOut]; omega)

/-! ### "exactly at the N-th consecutive expiry" -/

/-- A counter that starts at `c`, grows by one at every expiry below the limit and triggers the
fault at the first expiry with `counter + 1 ≥ limit`: the fault occurs at expiry number
`limit - c` (counted from 1) and at no earlier one; for a fresh procedure (`c = 0`) that is the
`limit`-th expiry.  (The NAK procedure tests `=`; for `c < limit` the two tests agree.) -/
theorem C04_expiry_count (c lim : Nat) (hl : 1 ≤ lim) (hc : c < lim) :
    (∀ j, j + 1 < lim - c → (c + j) + 1 < lim) ∧ ((c + (lim - c - 1)) + 1 ≥ lim) ∧
    ((c + (lim - c - 1)) + 1 = lim) := by
  refine ⟨?_, ?_, ?_⟩ <;> omega

/-- with the default table a silent peer makes the sender idle after at most `2·limit` expiries:
`limit` until the fault cancels (EOF (cancel) sent, counter restarted from 0 by
`C04_source_procedure_start`), `limit` more until the fault during the cancel exchange abandons
(`C14_source_fault_in_cancel_exchange`); every expiry in between re-sends exactly one EOF, so at
most `2·(limit − 1) + 1` EOF PDUs follow the original one -/
theorem C04_silent_peer_bound (lim : Nat) (hl : 1 ≤ lim) :
    (lim - 0) + (lim - 0) = 2 * lim ∧ (lim - 1) + 1 + (lim - 1) = 2 * (lim - 1) + 1 := by
  omega

/-! ## Iteration over time: exactly at the N-th consecutive expiry; a silent peer cannot hang a transaction -/

/-- the call times of consecutive expiries of a timer started at `start`: each call happens when
the timer (restarted by the previous one) has run out -/
def Expiring (timeout : Nat) : Nat → List Nat → Prop
  | _, [] => True
  | start, now :: rest => now - start ≥ timeout ∧ Expiring timeout now rest

/-- the last element, `d` for the empty list -/
def lastOr (d : Nat) : List Nat → Nat
  | [] => d
  | x :: xs => lastOr x xs

/-- the parameter block with the positive ACK timer restarted at `start` and the counter at `c` -/
def bumpP (p : Dest.Params) (start timeout c : Nat) : Dest.Params :=
  { p with ackTimer := some ⟨start, timeout⟩, ackCounter := c }

/-- the handler with that parameter block and an empty queue -/
def bump (d : Dest.DestSt) (start timeout c : Nat) : Dest.DestSt :=
  { d with p := bumpP d.p start timeout c, queue := [], numReady := 0 }

/-- receiver, Finished awaiting its ACK, silent peer: the positive ACK procedure is run at each of
the given times and the user retrieves the PDUs in between; returns the state and the PDUs emitted -/
def destExpiries (cfg : LocalCfg) (r : Dest.DM Unit) : List Nat → Dest.DestSt → List Pdu → Dest.DestSt × List Pdu
  | [], d, out => (d, out)
  | now :: rest, d, out =>
    let d1 := stateOf (Dest.handlePositiveAckProcedures ⟨cfg, now⟩ r d)
    destExpiries cfg r rest { d1 with queue := [], numReady := 0 } (out ++ d1.queue)

/-- **Below the limit every expiry re-sends exactly one Finished PDU and nothing else happens.**
`k` consecutive expiries with `counter + k < limit`: exactly `k` Finished PDUs (all equal to the
original one) were emitted, the counter grew by exactly `k`, the timer was restarted at the last
expiry, and nothing else in the handler changed (no fault declared, same step, same transaction) -/
theorem C04_dest_expiries_below_limit (cfg : LocalCfg) (r : Dest.DM Unit) (rc : RemoteCfg) :
    ∀ (times : List Nat) (d : Dest.DestSt) (out : List Pdu) (t : Timer),
      d.p.ackTimer = some t → d.p.remoteCfg = some rc → d.numReady = 0 → d.queue = [] →
      Expiring t.timeout t.start times → d.p.ackCounter + times.length < rc.ackLim →
      destExpiries cfg r times d out =
        (bump d (lastOr t.start times) t.timeout (d.p.ackCounter + times.length),
         out ++ List.replicate times.length (Dest.mkFin d.p.conf d.p.fin)) := by
  intro times
  induction times with
  | nil =>
    intro d out t ht hrc hq hqq _ _
    obtain ⟨st, to⟩ := t
    cases d with
    | mk a b c p e f g h i j =>
      cases p
      simp_all [destExpiries, lastOr, bump, bumpP]
  | cons now rest ih =>
    intro d out t ht hrc hq hqq hexp hlim
    simp only [Expiring] at hexp
    have hto : t.timedOut now = true := by simp [Timer.timedOut, hexp.1]
    have hl : d.p.ackCounter + 1 < rc.ackLim := by simp at hlim; omega
    have h1 := C04_dest_expiry_resends ⟨cfg, now⟩ d t rc r ht hrc hto hl hq
    simp only [destExpiries, h1, stateOf]
    have h2 := ih (bump d now t.timeout (d.p.ackCounter + 1))
      (out ++ (d.queue ++ [Dest.mkFin d.p.conf d.p.fin])) ⟨now, t.timeout⟩ rfl hrc rfl rfl hexp.2
      (by simp [bump, bumpP] at hlim ⊢; omega)
    refine Eq.trans h2 ?_
    simp [lastOr, bump, bumpP, hqq, hq, List.replicate_succ, Nat.add_assoc, Nat.add_comm 1]

theorem Expiring_snoc (timeout : Nat) : ∀ (times : List Nat) (start last : Nat),
    Expiring timeout start (times ++ [last]) →
      Expiring timeout start times ∧ last - lastOr start times ≥ timeout := by
  intro times
  induction times with
  | nil => intro start last h; simpa [Expiring, lastOr] using h
  | cons x xs ih =>
    intro start last h
    simp only [List.cons_append, Expiring] at h
    have := ih x last h.2
    exact ⟨⟨h.1, this.1⟩, by simpa [lastOr] using this.2⟩

def cancelP (p : Dest.Params) : Dest.Params :=
  { p with fin := { p.fin with cond := ccPositiveAckLimit }, canceled := true }

/-- the handler right after Positive ACK Limit Reached cancelled the transaction -/
def cancelledSt (d : Dest.DestSt) (tid : Tid) : Dest.DestSt :=
  { d with step := .TRANSFER_COMPLETION, p := cancelP d.p,
           flts := d.flts ++ [⟨fhCancel, tid, ccPositiveAckLimit, d.p.progress⟩] }

/-- **The limit fault is declared exactly at the N-th consecutive expiry, never earlier or later**
(receiver, Finished awaiting its ACK, fault handler "cancel", transaction not yet cancelled):
with `counter + k + 1 = limit`, the first `k` expiries re-send one Finished PDU each and declare
nothing; the `(k+1)`-th declares Positive ACK Limit Reached — one "cancel" callback with the
transaction id and the progress —, re-sends nothing itself and hands over to the nested state
machine call that completes the cancelled transaction. -/
theorem C04_dest_limit_exactly_at_Nth (cfg : LocalCfg) (r : Dest.DM Unit) (rc : RemoteCfg)
    (times : List Nat) (last : Nat) (d : Dest.DestSt) (t : Timer) (tid : Tid)
    (ht : d.p.ackTimer = some t) (hrc : d.p.remoteCfg = some rc) (hq : d.numReady = 0) (hqq : d.queue = [])
    (hexp : Expiring t.timeout t.start (times ++ [last]))
    (hlim : d.p.ackCounter + times.length + 1 = rc.ackLim)
    (htid : d.p.tid = some tid) (hb : d.state = .busy)
    (hfh : d.faults.lookup ccPositiveAckLimit = some fhCancel)
    (hx : C14.Dest.inCancelExchange d = false) :
    destExpiries cfg r times d [] =
      (bump d (lastOr t.start times) t.timeout (d.p.ackCounter + times.length),
       List.replicate times.length (Dest.mkFin d.p.conf d.p.fin)) ∧
    Dest.handlePositiveAckProcedures ⟨cfg, last⟩ r
        (bump d (lastOr t.start times) t.timeout (d.p.ackCounter + times.length)) =
      r (cancelledSt (bump d (lastOr t.start times) t.timeout (d.p.ackCounter + times.length)) tid) := by
  obtain ⟨hexp1, hlast⟩ := Expiring_snoc _ _ _ _ hexp
  have h1 := C04_dest_expiries_below_limit cfg r rc times d [] t ht hrc hq hqq hexp1 (by omega)
  refine ⟨by simpa using h1, ?_⟩
  have hx' : C14.Dest.inCancelExchange (bump d (lastOr t.start times) t.timeout (d.p.ackCounter + times.length)) = false := by
    simp only [C14.Dest.inCancelExchange, bump, bumpP] at hx ⊢; exact hx
  have h2 := C04_dest_expiry_at_limit_cancels ⟨cfg, last⟩
    (bump d (lastOr t.start times) t.timeout (d.p.ackCounter + times.length))
    ⟨lastOr t.start times, t.timeout⟩ rc r tid rfl (by simpa [bump, bumpP] using hrc)
    (by simp [Timer.timedOut, hlast]) (by simp [bump, bumpP]; omega) (by simpa [bump, bumpP] using htid)
    (by simpa [bump] using hb) (by simpa [bump] using hfh) hx'
  rw [h2]
  rfl

/-! ### receiver: NAK sequences awaiting missing data, silent peer -/

def bumpNakP (p : Dest.Params) (start timeout c : Nat) : Dest.Params :=
  { p with procTimer := some ⟨start, timeout⟩, nakCounter := c }

def bumpNak (d : Dest.DestSt) (start timeout c : Nat) : Dest.DestSt :=
  { d with p := bumpNakP d.p start timeout c, queue := [], numReady := 0 }

/-- the deferred lost segment procedure run at each of the given times, PDUs retrieved in between -/
def nakExpiries (cfg : LocalCfg) : List Nat → Dest.DestSt → List Pdu → Dest.DestSt × List Pdu
  | [], d, out => (d, out)
  | now :: rest, d, out =>
    let d1 := stateOf (Dest.deferredLostSegmentHandling ⟨cfg, now⟩ d)
    nakExpiries cfg rest { d1 with queue := [], numReady := 0 } (out ++ d1.queue)

/-- `k` copies of a list -/
def repeatList {α : Type} (l : List α) : Nat → List α
  | 0 => []
  | k + 1 => l ++ repeatList l k

/-- **Below the limit every expiry re-issues the whole NAK sequence, exactly once.**  With nothing
arriving, `k` consecutive expiries with `counter + k < limit` emit `k` copies of the NAK sequence
for what is missing, add exactly `k` to the counter, restart the timer at the last expiry and
change nothing else -/
theorem C04_nak_expiries_below_limit (cfg : LocalCfg) (rc : RemoteCfg) (fse maxSegs : Nat) :
    ∀ (times : List Nat) (d : Dest.DestSt) (out : List Pdu) (t : Timer),
      d.p.deferredActive = true → d.p.canceled = false → d.p.remoteCfg = some rc →
      d.p.fileSizeEof = some fse → (d.p.trk ≠ [] ∨ d.p.metadataMissing = true) →
      d.p.procTimer = some t → maxSegReqs rc.maxPkt d.p.conf = some maxSegs →
      d.numReady = 0 → d.queue = [] →
      Expiring t.timeout t.start times → d.p.nakCounter + times.length < rc.nakLim →
      nakExpiries cfg times d out =
        (bumpNak d (lastOr t.start times) t.timeout (d.p.nakCounter + times.length),
         out ++ repeatList (Dest.nakSequence d.p.conf fse maxSegs d.p.metadataMissing d.p.trk) times.length) := by
  intro times
  induction times with
  | nil =>
    intro d out t _ _ _ _ _ ht _ hq hqq _ _
    obtain ⟨st, to⟩ := t
    cases d with
    | mk a b c p e f g h i j =>
      cases p
      simp_all [nakExpiries, lastOr, bumpNak, bumpNakP, repeatList]
  | cons now rest ih =>
    intro d out t ha hnc hrc hf hmiss ht hmax hq hqq hexp hlim
    simp only [Expiring] at hexp
    have hto : t.timedOut now = true := by simp [Timer.timedOut, hexp.1]
    have hl : d.p.nakCounter + 1 ≠ rc.nakLim := by simp at hlim; omega
    have h1 := C04_nak_expiry_reissues ⟨cfg, now⟩ d t rc fse maxSegs ha hnc hrc hf hmiss ht hto hl hmax
    simp only at h1
    simp only [nakExpiries, h1, stateOf]
    have h2 := ih (bumpNak d now t.timeout (d.p.nakCounter + 1))
      (out ++ (d.queue ++ Dest.nakSequence d.p.conf fse maxSegs d.p.metadataMissing d.p.trk)) ⟨now, t.timeout⟩
      (by simpa [bumpNak, bumpNakP] using ha) (by simpa [bumpNak, bumpNakP] using hnc)
      (by simpa [bumpNak, bumpNakP] using hrc) (by simpa [bumpNak, bumpNakP] using hf)
      (by simpa [bumpNak, bumpNakP] using hmiss) rfl (by simpa [bumpNak, bumpNakP] using hmax) rfl rfl hexp.2
      (by simp [bumpNak, bumpNakP] at hlim ⊢; omega)
    refine Eq.trans h2 ?_
    simp [lastOr, bumpNak, bumpNakP, hqq, hq, repeatList, Nat.add_assoc, Nat.add_comm 1]

/-- **NAK Limit Reached is declared exactly at the N-th consecutive expiry without progress**: with
`counter + k + 1 = limit`, the first `k` expiries re-issue the NAK sequence and declare nothing; the
`(k+1)`-th call is exactly the declaration of the NAK limit fault (no NAK is sent) -/
theorem C04_nak_limit_exactly_at_Nth (cfg : LocalCfg) (rc : RemoteCfg) (fse maxSegs : Nat)
    (times : List Nat) (last : Nat) (d : Dest.DestSt) (t : Timer)
    (ha : d.p.deferredActive = true) (hnc : d.p.canceled = false) (hrc : d.p.remoteCfg = some rc)
    (hf : d.p.fileSizeEof = some fse) (hmiss : d.p.trk ≠ [] ∨ d.p.metadataMissing = true)
    (ht : d.p.procTimer = some t) (hmax : maxSegReqs rc.maxPkt d.p.conf = some maxSegs)
    (hq : d.numReady = 0) (hqq : d.queue = [])
    (hexp : Expiring t.timeout t.start (times ++ [last]))
    (hlim : d.p.nakCounter + times.length + 1 = rc.nakLim) :
    nakExpiries cfg times d [] =
      (bumpNak d (lastOr t.start times) t.timeout (d.p.nakCounter + times.length),
       repeatList (Dest.nakSequence d.p.conf fse maxSegs d.p.metadataMissing d.p.trk) times.length) ∧
    Dest.deferredLostSegmentHandling ⟨cfg, last⟩
        (bumpNak d (lastOr t.start times) t.timeout (d.p.nakCounter + times.length)) =
      (do let _ ← Dest.declareFault ccNakLimit; pure ())
        (bumpNak d (lastOr t.start times) t.timeout (d.p.nakCounter + times.length)) := by
  obtain ⟨hexp1, hlast⟩ := Expiring_snoc _ _ _ _ hexp
  have h1 := C04_nak_expiries_below_limit cfg rc fse maxSegs times d [] t ha hnc hrc hf hmiss ht hmax hq hqq
    hexp1 (by omega)
  refine ⟨by simpa using h1, ?_⟩
  exact C04_nak_expiry_at_limit ⟨cfg, last⟩ _ ⟨lastOr t.start times, t.timeout⟩ rc fse
    (by simpa [bumpNak, bumpNakP] using ha) (by simpa [bumpNak, bumpNakP] using hnc)
    (by simpa [bumpNak, bumpNakP] using hrc) (by simpa [bumpNak, bumpNakP] using hf)
    (by simpa [bumpNak, bumpNakP] using hmiss) rfl (by simp [Timer.timedOut, hlast])
    (by simp [bumpNak, bumpNakP]; omega)

/-! ### sender: EOF awaiting its ACK, silent peer -/

def bumpSrcP (p : Source.Params) (start timeout c : Nat) : Source.Params :=
  { p with ackTimer := some ⟨start, timeout⟩, ackCounter := c }

def bumpSrc (s : Source.SrcSt) (start timeout c : Nat) (inds : List Ind) : Source.SrcSt :=
  { s with p := bumpSrcP s.p start timeout c, queue := [], numReady := 0, inds := inds }

/-- one expiry below the limit, exact resulting state -/
theorem C04_source_expiry_resends_exact (env : Source.Env) (s : Source.SrcSt) (t : Timer) (rc : RemoteCfg)
    (req : Source.PutReq) (src : String) (F cks : List UInt8) (cond : Nat) (tid : Tid)
    (ht : s.p.ackTimer = some t) (hrc : s.p.remoteCfg = some rc) (hexp : t.timedOut env.now = true)
    (hlim : s.p.ackCounter + 1 < rc.ackLim)
    (hreq : s.putReq = some req) (hsrc : req.src = some src) (hmo : s.p.metadataOnly = false)
    (hfile : s.fs.get src = some (.file F)) (hnull : Checksum.CksType.ofNat rc.cks ≠ .null)
    (hcks : Checksum.calcChecksum (Checksum.CksType.ofNat rc.cks) F s.p.progress s.p.segmentLen = .ok cks)
    (hlen : cks.length = 4) (hcond : s.p.condCodeEof = some cond) (htid : s.p.tid = some tid) :
    Source.handlePositiveAckProcedures env s =
      .ok () { s with p := bumpSrcP s.p env.now t.timeout (s.p.ackCounter + 1),
                      queue := s.queue ++ [Source.mkEof s.p.conf cond cks s.p.progress],
                      numReady := s.numReady + 1,
                      inds := s.inds ++ (if env.cfg.indEofSent then [Ind.eofSent tid] else []) } := by
  have hl : ¬ rc.ackLim ≤ s.p.ackCounter + 1 := by omega
  have hc : Fs.calcChecksum s.fs (Checksum.CksType.ofNat rc.cks) src s.p.progress s.p.segmentLen = .ok cks := by
    simp [Fs.calcChecksum, hnull, hfile, hcks]
  cases hi : env.cfg.indEofSent <;>
  · msimp [Source.handlePositiveAckProcedures, Source.getP, ht, hrc, hexp, hl, Source.modP,
      Source.checksumCalculation, hreq, hsrc, hmo, hc,
      Source.prepareEofPdu, hcond, hlen, Source.addPacket, hi, htid, Source.emitInd, bumpSrcP, Timer.reset]

/-- the sender's positive ACK procedure run at each of the given times, PDUs retrieved in between -/
def srcExpiries (cfg : LocalCfg) : List Nat → Source.SrcSt → List Pdu → Source.SrcSt × List Pdu
  | [], s, out => (s, out)
  | now :: rest, s, out =>
    let s1 := stateOf (Source.handlePositiveAckProcedures ⟨cfg, now⟩ s)
    srcExpiries cfg rest { s1 with queue := [], numReady := 0 } (out ++ s1.queue)

/-- **Below the limit every expiry re-sends exactly one EOF PDU** (same condition code, size and
checksum), adds one to the counter, restarts the timer, announces it (EOF-Sent, if enabled) and
changes nothing else -/
theorem C04_source_expiries_below_limit (cfg : LocalCfg) (rc : RemoteCfg) (req : Source.PutReq) (src : String)
    (F cks : List UInt8) (cond : Nat) (tid : Tid) :
    ∀ (times : List Nat) (s : Source.SrcSt) (out : List Pdu) (t : Timer),
      s.p.ackTimer = some t → s.p.remoteCfg = some rc → s.putReq = some req → req.src = some src →
      s.p.metadataOnly = false → s.fs.get src = some (.file F) → Checksum.CksType.ofNat rc.cks ≠ .null →
      Checksum.calcChecksum (Checksum.CksType.ofNat rc.cks) F s.p.progress s.p.segmentLen = .ok cks →
      cks.length = 4 → s.p.condCodeEof = some cond → s.p.tid = some tid →
      s.numReady = 0 → s.queue = [] →
      Expiring t.timeout t.start times → s.p.ackCounter + times.length < rc.ackLim →
      srcExpiries cfg times s out =
        (bumpSrc s (lastOr t.start times) t.timeout (s.p.ackCounter + times.length)
           (s.inds ++ repeatList (if cfg.indEofSent then [Ind.eofSent tid] else []) times.length),
         out ++ List.replicate times.length (Source.mkEof s.p.conf cond cks s.p.progress)) := by
  intro times
  induction times with
  | nil =>
    intro s out t ht _ _ _ _ _ _ _ _ _ _ hq hqq _ _
    obtain ⟨st, to⟩ := t
    cases s with
    | mk a b c p e f g h i j k l =>
      cases p
      simp_all [srcExpiries, lastOr, bumpSrc, bumpSrcP, repeatList]
  | cons now rest ih =>
    intro s out t ht hrc hreq hsrc hmo hfile hnull hcks hlen hcond htid hq hqq hexp hlim
    simp only [Expiring] at hexp
    have hto : t.timedOut now = true := by simp [Timer.timedOut, hexp.1]
    have hl : s.p.ackCounter + 1 < rc.ackLim := by simp at hlim; omega
    have h1 := C04_source_expiry_resends_exact ⟨cfg, now⟩ s t rc req src F cks cond tid ht hrc hto hl hreq hsrc
      hmo hfile hnull hcks hlen hcond htid
    simp only [srcExpiries, h1, stateOf]
    have h2 := ih (bumpSrc s now t.timeout (s.p.ackCounter + 1)
        (s.inds ++ (if cfg.indEofSent then [Ind.eofSent tid] else [])))
      (out ++ (s.queue ++ [Source.mkEof s.p.conf cond cks s.p.progress])) ⟨now, t.timeout⟩ rfl
      (by simpa [bumpSrc, bumpSrcP] using hrc) (by simpa [bumpSrc] using hreq) hsrc
      (by simpa [bumpSrc, bumpSrcP] using hmo) (by simpa [bumpSrc] using hfile) hnull
      (by simpa [bumpSrc, bumpSrcP] using hcks) hlen (by simpa [bumpSrc, bumpSrcP] using hcond)
      (by simpa [bumpSrc, bumpSrcP] using htid) rfl rfl hexp.2
      (by simp [bumpSrc, bumpSrcP] at hlim ⊢; omega)
    refine Eq.trans h2 ?_
    simp [lastOr, bumpSrc, bumpSrcP, hqq, hq, repeatList, List.replicate_succ, Nat.add_assoc, Nat.add_comm 1]

/-- **Positive ACK Limit Reached is declared exactly at the N-th consecutive expiry** (sender):
with `counter + k + 1 = limit` the first `k` expiries re-send one EOF PDU each and declare nothing;
the `(k+1)`-th call is exactly the declaration of the fault -/
theorem C04_source_limit_exactly_at_Nth (cfg : LocalCfg) (rc : RemoteCfg) (req : Source.PutReq) (src : String)
    (F cks : List UInt8) (cond : Nat) (tid : Tid) (times : List Nat) (last : Nat) (s : Source.SrcSt) (t : Timer)
    (ht : s.p.ackTimer = some t) (hrc : s.p.remoteCfg = some rc) (hreq : s.putReq = some req)
    (hsrc : req.src = some src) (hmo : s.p.metadataOnly = false) (hfile : s.fs.get src = some (.file F))
    (hnull : Checksum.CksType.ofNat rc.cks ≠ .null)
    (hcks : Checksum.calcChecksum (Checksum.CksType.ofNat rc.cks) F s.p.progress s.p.segmentLen = .ok cks)
    (hlen : cks.length = 4) (hcond : s.p.condCodeEof = some cond) (htid : s.p.tid = some tid)
    (hq : s.numReady = 0) (hqq : s.queue = [])
    (hexp : Expiring t.timeout t.start (times ++ [last]))
    (hlim : s.p.ackCounter + times.length + 1 = rc.ackLim) :
    let sk := bumpSrc s (lastOr t.start times) t.timeout (s.p.ackCounter + times.length)
      (s.inds ++ repeatList (if cfg.indEofSent then [Ind.eofSent tid] else []) times.length)
    srcExpiries cfg times s [] =
      (sk, List.replicate times.length (Source.mkEof s.p.conf cond cks s.p.progress)) ∧
    Source.handlePositiveAckProcedures ⟨cfg, last⟩ sk = Source.declareFault ⟨cfg, last⟩ ccPositiveAckLimit sk := by
  obtain ⟨hexp1, hlast⟩ := Expiring_snoc _ _ _ _ hexp
  have h1 := C04_source_expiries_below_limit cfg rc req src F cks cond tid times s [] t ht hrc hreq hsrc hmo
    hfile hnull hcks hlen hcond htid hq hqq hexp1 (by omega)
  refine ⟨by simpa using h1, ?_⟩
  exact C04_source_expiry_at_limit ⟨cfg, last⟩ _ ⟨lastOr t.start times, t.timeout⟩ rc rfl
    (by simpa [bumpSrc, bumpSrcP] using hrc) (by simp [Timer.timedOut, hlast])
    (by simp [bumpSrc, bumpSrcP]; omega)

/-! ### the cancellation exchange after the limit fault (receiver) -/

/-- the cancelled transaction is completed by the nested state machine call: Transaction-Finished
indication (if enabled), incomplete file deleted if so configured, one Finished (cancel) PDU
queued, positive ACK procedure restarted from zero -/
theorem C04_dest_cancel_completes (env : Dest.Env) (d : Dest.DestSt) (rc : RemoteCfg) (rec : Dest.DM Unit)
    (hb : d.state = .busy) (hstep : d.step = .TRANSFER_COMPLETION) (hq : d.queue = []) (hn : d.numReady = 0)
    (hc : d.p.canceled = true) (hrc : d.p.remoteCfg = some rc) (hmode : d.p.conf.mode = .ack)
    (hms : rc.ackMs ≠ 0) :
    ∃ d', Dest.stateMachineWith env none rec d = .ok () d' ∧
      d'.step = .WAITING_FOR_FINISHED_ACK ∧ d'.state = .busy ∧ d'.p.ackCounter = 0 ∧
      d'.p.ackTimer = some ⟨env.now, rc.ackMs⟩ ∧ d'.p.canceled = true ∧ d'.p.remoteCfg = some rc ∧
      d'.p.tid = d.p.tid ∧ d'.faults = d.faults ∧ d'.flts = d.flts ∧ d'.numReady = 1 ∧
      d'.queue = [Dest.mkFin d.p.conf d'.p.fin] ∧ d'.p.fin.cond = d.p.fin.cond ∧ d'.p.conf = d.p.conf ∧
      d'.p.progress = d.p.progress := by
  have hidle : (d.state = CfdpState.idle) = False := by simp [hb]
  by_cases hdisp : rc.disp = true ∧ d.p.fin.deliv = dcIncomplete <;>
  cases hind : env.cfg.indFinished <;>
  · apply Exists.intro
    constructor
    · msimp [Dest.stateMachineWith, hb, Dest.nonIdleFsm, Dest.fsmAdvancementAfterPacketsWereSent, hq, hstep,
        Dest.fsmFromReceiving, Dest.fsmFromWaitingForMetadata, Dest.fsmFromCheckLimit,
        Dest.fsmFromWaitingForMissingData, Dest.fsmFromTransferCompletion, Dest.handleTransferCompletion,
        Dest.noticeOfCompletion, hc, hrc, hdisp, hind, Dest.getP, Dest.emitInd, Dest.transmissionMode, hmode,
        Dest.fsmFromSendingFinishedPdu, hn, Dest.prepareFinishedPdu, Dest.addPacket, Dest.handleFinishedPduSent,
        Dest.startPositiveAckProcedure, Dest.modP, Dest.fsmFromWaitingForFinishedAck,
        Dest.handleWaitingForFinishedAck, Dest.handlePositiveAckProcedures, Timer.timedOut, hms]
      rfl
    · simp

/-- **A silent peer cannot hang the receiver** (default fault handlers: Positive ACK Limit Reached
cancels).  The handler waits for the ACK of its Finished PDU with limit `N`; nothing ever arrives.
`N-1` expiries re-send the Finished PDU; the `N`-th declares the fault, cancels, and the nested call
queues the Finished (cancel) PDU and restarts the procedure; `N-1` further expiries re-send that
PDU; the `N`-th declares the fault again, which now abandons: the handler is idle, exactly
`2·(N-1) + 1` Finished PDUs after the original one were ever sent, and none after that. -/
theorem C04_dest_silent_peer_idle_after_2N (cfg : LocalCfg) (rc : RemoteCfg) (rec : Dest.DM Unit)
    (times1 : List Nat) (last1 : Nat) (times2 : List Nat) (last2 : Nat) (d : Dest.DestSt) (t : Timer) (tid : Tid)
    (ht : d.p.ackTimer = some t) (hrc : d.p.remoteCfg = some rc) (hq : d.numReady = 0) (hqq : d.queue = [])
    (hc0 : d.p.ackCounter = 0) (htid : d.p.tid = some tid) (hb : d.state = .busy)
    (hstep : d.step = .WAITING_FOR_FINISHED_ACK) (hnc : d.p.canceled = false) (hmode : d.p.conf.mode = .ack)
    (hms : rc.ackMs ≠ 0)
    (hfh : d.faults.lookup ccPositiveAckLimit = some fhCancel)
    (hexp1 : Expiring t.timeout t.start (times1 ++ [last1])) (hlen1 : times1.length + 1 = rc.ackLim)
    (hexp2 : Expiring rc.ackMs last1 (times2 ++ [last2])) (hlen2 : times2.length + 1 = rc.ackLim) :
    ∃ dk d1 dend fin2,
      -- phase 1: N-1 re-sends of the original Finished PDU, no fault
      destExpiries cfg (Dest.stateMachineWith ⟨cfg, last1⟩ none rec) times1 d [] =
        (dk, List.replicate times1.length (Dest.mkFin d.p.conf d.p.fin)) ∧
      -- N-th expiry: fault, cancel, Finished (cancel) queued, procedure restarted
      Dest.handlePositiveAckProcedures ⟨cfg, last1⟩ (Dest.stateMachineWith ⟨cfg, last1⟩ none rec) dk = .ok () d1 ∧
      d1.queue = [fin2] ∧ d1.flts = d.flts ++ [⟨fhCancel, tid, ccPositiveAckLimit, d.p.progress⟩] ∧
      -- phase 2: N-1 re-sends of the Finished (cancel) PDU, then abandon
      (destExpiries cfg rec times2 { d1 with queue := [], numReady := 0 } []).2 =
        List.replicate times2.length fin2 ∧
      Dest.handlePositiveAckProcedures ⟨cfg, last2⟩ rec
        (destExpiries cfg rec times2 { d1 with queue := [], numReady := 0 } []).1 = .ok () dend ∧
      dend.state = .idle ∧ dend.step = .IDLE ∧ dend.queue = [] ∧
      dend.flts = d1.flts ++ [⟨fhAbandon, tid, ccPositiveAckLimit, d.p.progress⟩] := by
  have hx : C14.Dest.inCancelExchange d = false := by simp [C14.Dest.inCancelExchange, hnc]
  obtain ⟨h1, h2⟩ :=
    C04_dest_limit_exactly_at_Nth cfg (Dest.stateMachineWith ⟨cfg, last1⟩ none rec) rc times1 last1 d t tid
      ht hrc hq hqq hexp1 (by omega) htid hb hfh hx
  -- the nested call completes the cancelled transaction
  obtain ⟨d1, hc1, hs1, hb1, hcnt1, htm1, hcan1, hrc1, htid1, hf1, hfl1, hn1, hq1, hcond1, hconf1, hprog1⟩ :=
    C04_dest_cancel_completes ⟨cfg, last1⟩
      (cancelledSt (bump d (lastOr t.start times1) t.timeout (d.p.ackCounter + times1.length)) tid) rc rec
      (by simpa [cancelledSt, bump] using hb) rfl (by simp [cancelledSt, bump]) (by simp [cancelledSt, bump])
      (by simp [cancelledSt, cancelP]) (by simpa [cancelledSt, cancelP, bump, bumpP] using hrc)
      (by simpa [cancelledSt, cancelP, bump, bumpP] using hmode) hms
  -- phase 2 on the drained state
  have hd1q : ({ d1 with queue := [], numReady := 0 } : Dest.DestSt).p.ackTimer = some ⟨last1, rc.ackMs⟩ := htm1
  obtain ⟨hexp2a, hlast2⟩ := Expiring_snoc _ _ _ _ hexp2
  have h3 := C04_dest_expiries_below_limit cfg rec rc times2 { d1 with queue := [], numReady := 0 } []
    ⟨last1, rc.ackMs⟩ htm1 hrc1 rfl rfl hexp2a (by simp [hcnt1]; omega)
  have hx2 : C14.Dest.inCancelExchange
      (bump { d1 with queue := [], numReady := 0 } (lastOr last1 times2) rc.ackMs (0 + times2.length)) = true := by
    simp [C14.Dest.inCancelExchange, bump, bumpP, hcan1, hs1]
  have h4 := C04_dest_expiry_at_limit_abandons ⟨cfg, last2⟩
    (bump { d1 with queue := [], numReady := 0 } (lastOr last1 times2) rc.ackMs (0 + times2.length))
    ⟨lastOr last1 times2, rc.ackMs⟩ rc rec tid rfl (by simpa [bump, bumpP] using hrc1)
    (by simp [Timer.timedOut, hlast2]) (by simp [bump, bumpP]; omega)
    (by simp [bump, bumpP, htid1, cancelledSt, cancelP, htid])
    (by simp [bump, hf1, cancelledSt, hfh]) hx2
  simp only at h3
  rw [hcnt1] at h3
  obtain ⟨dend, hdend, he1, he2, he3, he4⟩ : ∃ dend, Dest.handlePositiveAckProcedures ⟨cfg, last2⟩ rec
      (bump { d1 with queue := [], numReady := 0 } (lastOr last1 times2) rc.ackMs (0 + times2.length)) = .ok () dend ∧
      dend.state = .idle ∧ dend.step = .IDLE ∧ dend.queue = [] ∧
      dend.flts = d1.flts ++ [⟨fhAbandon, tid, ccPositiveAckLimit, d.p.progress⟩] :=
    ⟨_, h4, rfl, rfl, by simp [bump], by simp [bump, bumpP, hfl1, hcond1, hprog1, cancelledSt, cancelP]⟩
  refine ⟨_, d1, dend, Dest.mkFin d.p.conf d1.p.fin, by simpa using h1, ?_, ?_, ?_, ?_, ?_, he1, he2, he3, he4⟩
  · rw [h2]; exact hc1
  · simpa [cancelledSt, cancelP, bump, bumpP] using hq1
  · simpa [cancelledSt, bump, bumpP] using hfl1
  · simp [h3, hconf1, cancelledSt, cancelP, bump, bumpP]
  · rw [h3]; exact hdend

/-! ### the cancellation exchange after the limit fault (sender) -/

/-- the state after the sender's limit fault cancelled the transaction: EOF condition set, procedure
restarted, one EOF (cancel) PDU queued, EOF-Sent announced -/
def cancelledSrc (s : Source.SrcSt) (cond now ms : Nat) (eof : Pdu) (ind : List Ind) : Source.SrcSt :=
  { s with p := { s.p with condCodeEof := some cond, ackTimer := some ⟨now, ms⟩, ackCounter := 0 },
           step := .WAITING_FOR_EOF_ACK, queue := s.queue ++ [eof], numReady := s.numReady + 1,
           inds := s.inds ++ ind }

/-- a cancelling fault in acknowledged mode, no cancellation exchange in progress yet: exactly one EOF PDU
with the fault's condition, the progress as size and the checksum of that prefix; the positive ACK
procedure starts again from zero; one cancellation callback -/
theorem C04_source_limit_fault_cancels (env : Source.Env) (s : Source.SrcSt) (rc : RemoteCfg)
    (req : Source.PutReq) (src : String) (F cks : List UInt8) (cond : Nat) (tid : Tid)
    (hb : s.state = .busy) (hmode : s.p.conf.mode = .ack)
    (hnc : Source.cancelInProgress s.p = none) (hrc : s.p.remoteCfg = some rc)
    (hreq : s.putReq = some req) (hsrc : req.src = some src) (hmo : s.p.metadataOnly = false)
    (hfile : s.fs.get src = some (.file F)) (hnull : Checksum.CksType.ofNat rc.cks ≠ .null)
    (hcks : Checksum.calcChecksum (Checksum.CksType.ofNat rc.cks) F s.p.progress s.p.segmentLen = .ok cks)
    (hlen : cks.length = 4) (htid : s.p.tid = some tid)
    (hfh : s.faults.lookup cond = some fhCancel) :
    Source.declareFault env cond s =
      .ok () { cancelledSrc s cond env.now rc.ackMs (Source.mkEof s.p.conf cond cks s.p.progress)
                 (if env.cfg.indEofSent then [Ind.eofSent tid] else []) with
               flts := s.flts ++ [⟨fhCancel, tid, cond, s.p.progress⟩] } := by
  have hc : Fs.calcChecksum s.fs (Checksum.CksType.ofNat rc.cks) src s.p.progress s.p.segmentLen = .ok cks := by
    simp [Fs.calcChecksum, hnull, hfile, hcks]
  have hni : (s.state = CfdpState.idle) = False := by simp [hb]
  cases hi : env.cfg.indEofSent <;>
  · msimp [Source.declareFault, htid, hfh, Source.noticeOfCancellation, hnc, Source.getP,
      Source.modP, Source.checksumCalculation, hreq, hsrc, hmo, hrc, hc, Source.prepareEofPdu, hlen,
      Source.addPacket, Source.emitInd, hi, Source.handleEofSent, Source.transmissionMode, hmode, hni,
      Source.startPositiveAckProcedure, cancelledSrc]


/-- **A silent peer cannot hang the sender** (default fault handlers: Positive ACK Limit Reached cancels).
The EOF PDU awaits its ACK with limit `N`; nothing ever arrives.  `N-1` expiries re-send the EOF PDU
(identical copies); the `N`-th declares the fault, which cancels: one EOF PDU with condition Positive ACK
Limit Reached — same size field and same checksum, the bytes sent have not changed — and the procedure
starts again; `N-1` further expiries re-send that PDU (identical copies); the `N`-th declares the fault
again, which now abandons: the handler is idle, exactly `2·(N-1) + 1` EOF PDUs after the original one
were ever sent, and none after that. -/
theorem C04_source_silent_peer_idle_after_2N (cfg : LocalCfg) (rc : RemoteCfg) (req : Source.PutReq)
    (src : String) (F cks : List UInt8) (tid : Tid)
    (times1 : List Nat) (last1 : Nat) (times2 : List Nat) (last2 : Nat) (s : Source.SrcSt) (t : Timer)
    (ht : s.p.ackTimer = some t) (hrc : s.p.remoteCfg = some rc) (hreq : s.putReq = some req)
    (hsrc : req.src = some src) (hmo : s.p.metadataOnly = false) (hfile : s.fs.get src = some (.file F))
    (hnull : Checksum.CksType.ofNat rc.cks ≠ .null)
    (hcks : Checksum.calcChecksum (Checksum.CksType.ofNat rc.cks) F s.p.progress s.p.segmentLen = .ok cks)
    (hlen : cks.length = 4) (hcond : s.p.condCodeEof = some ccNoError) (htid : s.p.tid = some tid)
    (hq : s.numReady = 0) (hqq : s.queue = []) (hc0 : s.p.ackCounter = 0)
    (hb : s.state = .busy) (hmode : s.p.conf.mode = .ack)
    (hfh : s.faults.lookup ccPositiveAckLimit = some fhCancel)
    (hexp1 : Expiring t.timeout t.start (times1 ++ [last1])) (hlen1 : times1.length + 1 = rc.ackLim)
    (hexp2 : Expiring rc.ackMs last1 (times2 ++ [last2])) (hlen2 : times2.length + 1 = rc.ackLim) :
    ∃ sk s1 send,
      -- phase 1: N-1 re-sends of the EOF PDU, no fault
      srcExpiries cfg times1 s [] =
        (sk, List.replicate times1.length (Source.mkEof s.p.conf ccNoError cks s.p.progress)) ∧
      -- N-th expiry: fault, cancel, EOF (cancel) queued, procedure restarted
      Source.handlePositiveAckProcedures ⟨cfg, last1⟩ sk = .ok () s1 ∧
      s1.queue = [Source.mkEof s.p.conf ccPositiveAckLimit cks s.p.progress] ∧
      s1.flts = s.flts ++ [⟨fhCancel, tid, ccPositiveAckLimit, s.p.progress⟩] ∧
      -- phase 2: N-1 re-sends of the EOF (cancel) PDU, then abandon
      (srcExpiries cfg times2 { s1 with queue := [], numReady := 0 } []).2 =
        List.replicate times2.length (Source.mkEof s.p.conf ccPositiveAckLimit cks s.p.progress) ∧
      Source.handlePositiveAckProcedures ⟨cfg, last2⟩
        (srcExpiries cfg times2 { s1 with queue := [], numReady := 0 } []).1 = .ok () send ∧
      send.state = .idle ∧ send.step = .IDLE ∧ send.queue = [] ∧
      send.flts = s1.flts ++ [⟨fhAbandon, tid, ccPositiveAckLimit, s.p.progress⟩] := by
  obtain ⟨h1, h2⟩ := C04_source_limit_exactly_at_Nth cfg rc req src F cks ccNoError tid times1 last1 s t ht hrc hreq
    hsrc hmo hfile hnull hcks hlen hcond htid hq hqq hexp1 (by omega)
  -- the N-th expiry cancels
  have hF := C04_source_limit_fault_cancels ⟨cfg, last1⟩
    (bumpSrc s (lastOr t.start times1) t.timeout (s.p.ackCounter + times1.length)
      (s.inds ++ repeatList (if cfg.indEofSent then [Ind.eofSent tid] else []) times1.length))
    rc req src F cks ccPositiveAckLimit tid (by simpa [bumpSrc] using hb) (by simpa [bumpSrc, bumpSrcP] using hmode)
    (by simp [Source.cancelInProgress, bumpSrc, bumpSrcP, hcond, ccNoError])
    (by simpa [bumpSrc, bumpSrcP] using hrc) (by simpa [bumpSrc] using hreq) hsrc
    (by simpa [bumpSrc, bumpSrcP] using hmo) (by simpa [bumpSrc] using hfile) hnull
    (by simpa [bumpSrc, bumpSrcP] using hcks) hlen (by simpa [bumpSrc, bumpSrcP] using htid)
    (by simpa [bumpSrc] using hfh)
  rw [hF] at h2
  -- name the state after the cancellation and collect what phase 2 needs to know about it
  obtain ⟨s1, hs1⟩ : ∃ s1 : Source.SrcSt, s1 = { cancelledSrc
      (bumpSrc s (lastOr t.start times1) t.timeout (s.p.ackCounter + times1.length)
        (s.inds ++ repeatList (if cfg.indEofSent then [Ind.eofSent tid] else []) times1.length))
      ccPositiveAckLimit last1 rc.ackMs (Source.mkEof s.p.conf ccPositiveAckLimit cks s.p.progress)
      (if cfg.indEofSent then [Ind.eofSent tid] else []) with
      flts := s.flts ++ [⟨fhCancel, tid, ccPositiveAckLimit, s.p.progress⟩] } := ⟨_, rfl⟩
  have h2' : Source.handlePositiveAckProcedures ⟨cfg, last1⟩
      (bumpSrc s (lastOr t.start times1) t.timeout (s.p.ackCounter + times1.length)
        (s.inds ++ repeatList (if cfg.indEofSent then [Ind.eofSent tid] else []) times1.length)) = .ok () s1 := by
    rw [h2, hs1]; rfl
  have q1 : s1.queue = [Source.mkEof s.p.conf ccPositiveAckLimit cks s.p.progress] := by
    rw [hs1]; simp [cancelledSrc, bumpSrc]
  have f1 : s1.flts = s.flts ++ [⟨fhCancel, tid, ccPositiveAckLimit, s.p.progress⟩] := by rw [hs1]
  let s1d : Source.SrcSt := { s1 with queue := [], numReady := 0 }
  have e_t : s1d.p.ackTimer = some ⟨last1, rc.ackMs⟩ := by simp [s1d, hs1, cancelledSrc]
  have e_rc : s1d.p.remoteCfg = some rc := by simpa [s1d, hs1, cancelledSrc, bumpSrc, bumpSrcP] using hrc
  have e_req : s1d.putReq = some req := by simpa [s1d, hs1, cancelledSrc, bumpSrc] using hreq
  have e_mo : s1d.p.metadataOnly = false := by simpa [s1d, hs1, cancelledSrc, bumpSrc, bumpSrcP] using hmo
  have e_file : s1d.fs.get src = some (.file F) := by simpa [s1d, hs1, cancelledSrc, bumpSrc] using hfile
  have e_prog : s1d.p.progress = s.p.progress := by simp [s1d, hs1, cancelledSrc, bumpSrc, bumpSrcP]
  have e_seg : s1d.p.segmentLen = s.p.segmentLen := by simp [s1d, hs1, cancelledSrc, bumpSrc, bumpSrcP]
  have e_conf : s1d.p.conf = s.p.conf := by simp [s1d, hs1, cancelledSrc, bumpSrc, bumpSrcP]
  have e_cond : s1d.p.condCodeEof = some ccPositiveAckLimit := by simp [s1d, hs1, cancelledSrc]
  have e_tid : s1d.p.tid = some tid := by simpa [s1d, hs1, cancelledSrc, bumpSrc, bumpSrcP] using htid
  have e_cnt : s1d.p.ackCounter = 0 := by simp [s1d, hs1, cancelledSrc]
  have e_fh : s1d.faults.lookup ccPositiveAckLimit = some fhCancel := by
    simpa [s1d, hs1, cancelledSrc, bumpSrc] using hfh
  have e_flts : s1d.flts = s1.flts := rfl
  obtain ⟨h3, h4⟩ := C04_source_limit_exactly_at_Nth cfg rc req src F cks ccPositiveAckLimit tid times2 last2 s1d
    ⟨last1, rc.ackMs⟩ e_t e_rc e_req hsrc e_mo e_file hnull (by rw [e_prog, e_seg]; exact hcks) hlen e_cond e_tid
    rfl rfl hexp2 (by rw [e_cnt]; omega)
  have h5 := C14.C14_source_fault_in_cancel_exchange ⟨cfg, last2⟩
    (bumpSrc s1d (lastOr last1 times2) rc.ackMs (s1d.p.ackCounter + times2.length)
      (s1d.inds ++ repeatList (if cfg.indEofSent then [Ind.eofSent tid] else []) times2.length))
    ccPositiveAckLimit ccPositiveAckLimit tid (by simpa [bumpSrc, bumpSrcP] using e_tid)
    (by simpa [bumpSrc] using e_fh)
    (by simp [Source.cancelInProgress, bumpSrc, bumpSrcP, e_cond, ccPositiveAckLimit, ccNoError])
  rw [h5] at h4
  obtain ⟨send, hsend, a1, a2, a3, a4⟩ : ∃ send, Source.handlePositiveAckProcedures ⟨cfg, last2⟩
      (bumpSrc s1d (lastOr last1 times2) rc.ackMs (s1d.p.ackCounter + times2.length)
        (s1d.inds ++ repeatList (if cfg.indEofSent then [Ind.eofSent tid] else []) times2.length)) = .ok () send ∧
      send.state = .idle ∧ send.step = .IDLE ∧ send.queue = [] ∧
      send.flts = s1.flts ++ [⟨fhAbandon, tid, ccPositiveAckLimit, s.p.progress⟩] :=
    ⟨_, h4, rfl, rfl, rfl, by simp [bumpSrc, bumpSrcP, e_flts, e_prog]⟩
  refine ⟨_, s1, send, h1, h2', q1, f1, ?_, ?_, a1, a2, a3, a4⟩
  · show (srcExpiries cfg times2 s1d []).2 = _
    rw [h3, e_conf, e_prog]
  · show Source.handlePositiveAckProcedures ⟨cfg, last2⟩ (srcExpiries cfg times2 s1d []).1 = _
    rw [h3]; exact hsend

/-! ### a served NAK is not progress for the EOF (half-silent link at the sender) -/

section ServedNak
open Cfdp.Source Cfdp.Source.C08

def isEofPdu : Pdu → Bool
  | .eof .. => true
  | _ => false

theorem chunkPdus_no_eof (conf : Hdr) (F : List UInt8) (seg : Nat) :
    ∀ (fuel cur missing : Nat), ∀ p ∈ chunkPdus conf F seg fuel cur missing, isEofPdu p = false := by
  intro fuel
  induction fuel with
  | zero => intro cur missing p hp; simp [chunkPdus] at hp
  | succ fuel ih =>
    intro cur missing p hp
    unfold chunkPdus at hp
    split at hp
    · simp only [List.mem_cons] at hp
      rcases hp with hp | hp
      · subst hp; rfl
      · exact ih _ _ p hp
    · simp at hp

/-- **Serving a NAK is not progress for the EOF** (sender waiting for the ACK of its EOF PDU, half-silent
link: the receiver's NAKs arrive, its ACKs do not): the call answers the valid requests with Metadata /
File Data PDUs only — no EOF PDU outside the timer —, and the positive ACK timer and counter are exactly
what they were, so the expiry schedule and the limit are unaffected. -/
theorem C04_source_served_nak_not_progress (env : Env) (s : SrcSt) (rc : RemoteCfg) (req : PutReq)
    (src dst : String) (F : List UInt8) (h : Hdr) (sos eos : Nat) (reqs : List (Nat × Nat))
    (hadm : checkInsertedPacket env (.nak h sos eos reqs) s = .ok () s)
    (hb : s.state = .busy) (hq : s.queue = []) (hmode : s.p.conf.mode = .ack)
    (hstep : s.step = .WAITING_FOR_EOF_ACK)
    (hreq : s.putReq = some req) (hsrc : req.src = some src) (hdst : req.dst = some dst)
    (hrc : s.p.remoteCfg = some rc) (hfile : s.fs.get src = some (.file F)) (hseg : 0 < s.p.segmentLen)
    (hv : ∀ r ∈ reqs, ValidReq s.p.progress r) :
    ∃ s', stateMachine env (some (.nak h sos eos reqs)) s = .ok () s' ∧
      s'.p = s.p ∧ s'.flts = s.flts ∧ (∀ p ∈ s'.queue, isEofPdu p = false) := by
  have h1 := C08_nak_call env s rc req src dst F h sos eos reqs hadm hb hq hmode (Or.inr (Or.inl hstep)) hreq hsrc
    hdst hrc hfile hseg hv
  refine ⟨_, h1, rfl, rfl, ?_⟩
  intro p hp
  simp only [afterNak, hq, List.nil_append, List.mem_flatMap] at hp
  obtain ⟨r, _, hr⟩ := hp
  unfold answer at hr
  split at hr
  · simp only [List.mem_singleton] at hr; subst hr; rfl
  · exact chunkPdus_no_eof _ _ _ _ _ _ p hr

end ServedNak

/-! ## The retry counters never reach their limits — every call sequence -/

inductive SCall where
  | put (req : Source.PutReq) | sm (pkt : Option Pdu) | get | cancel (tid : Tid) | reset

def SCall.run (env : Source.Env) : SCall → Source.SrcSt → Source.SrcSt
  | .put r, s => stateOf (Source.putRequest env r s)
  | .sm pkt, s => stateOf (Source.stateMachine env pkt s)
  | .get, s => stateOf (Source.getNextPacket s)
  | .cancel t, s => stateOf (Source.cancelRequest env t s)
  | .reset, s => stateOf (Source.reset s)

inductive DCall where
  | sm (pkt : Option Pdu) | get | cancel (tid : Tid) | reset

def DCall.run (env : Dest.Env) : DCall → Dest.DestSt → Dest.DestSt
  | .sm pkt, s => stateOf (Dest.stateMachine env pkt s)
  | .get, s => stateOf (Dest.getNextPacket s)
  | .cancel t, s => stateOf (Dest.cancelRequest env t s)
  | .reset, s => stateOf (Dest.reset s)

/-- **Sender, every call sequence.**  From a new handler, after any sequence of put requests,
`state_machine` calls with any PDU or none at any times, retrievals, cancel requests and resets: the
positive-ACK retry counter is 0 or satisfies `counter + 1 ≤ limit` — whatever the fault handlers, the
EOF of a transaction is re-sent at most `limit - 1` times. -/
theorem C04_source_counter_below_limit_all_histories (env : Source.Env) (calls : List SCall) (s : Source.SrcSt)
    (h : Source.Bound.AckBound env s) :
    Source.Bound.AckBound env (calls.foldl (fun s c => c.run env s) s) := by
  induction calls generalizing s with
  | nil => exact h
  | cons c cs ih =>
    apply ih
    cases c with
    | put r => exact Source.Bound.putRequest_b env r s h
    | sm pkt => exact Source.Bound.stateMachine_b env pkt s h
    | get => exact Source.Bound.getNextPacket_b env s h
    | cancel t => exact Source.Bound.cancelRequest_b env t s h
    | reset => exact Source.Bound.reset_b env s h

/-- a new sender satisfies the invariant -/
theorem C04_source_counter_init (env : Source.Env) : Source.Bound.AckBound env {} :=
  ⟨fun _ => ⟨rfl, rfl⟩, fun rc h => by simp at h⟩

/-- **Receiver, every call sequence**: the NAK retry counter satisfies `counter + 1 ≤ limit` (for limits
of at least 1) — the NAK sequence is re-issued at most `limit - 1` times without progress, whatever the
fault handlers and whatever arrives in between. -/
theorem C04_dest_nak_counter_below_limit_all_histories (env : Dest.Env) (calls : List DCall) (s : Dest.DestSt)
    (h : Dest.Bound.NakBound env s) :
    Dest.Bound.NakBound env (calls.foldl (fun s c => c.run env s) s) := by
  induction calls generalizing s with
  | nil => exact h
  | cons c cs ih =>
    apply ih
    cases c with
    | sm pkt => exact Dest.Bound.stateMachine_b env pkt s h
    | get => exact Dest.Bound.getNextPacket_b env s h
    | cancel t => exact Dest.Bound.cancelRequest_b env t s h
    | reset => exact Dest.Bound.reset_b env s h

theorem C04_dest_nak_counter_init (env : Dest.Env) : Dest.Bound.NakBound env {} :=
  ⟨fun _ => ⟨rfl, rfl⟩, fun rc h => by simp at h⟩

end Cfdp.C04
