import CfdpVerif.Props.C14
/-!
# C04 — retry limits are honoured exactly; a silent peer cannot hang a transaction

Model: the three timer-driven retry procedures — sender `handlePositiveAckProcedures` (EOF awaiting
its ACK), receiver `handlePositiveAckProcedures` (Finished awaiting its ACK), receiver
`deferredLostSegmentHandling` (NAK sequences awaiting missing data).  An *expiry* is a call at which
the procedure's timer has run out (`Timer.timedOut`).  For each procedure: a call before the expiry
changes nothing; an expiry with `counter + 1 < limit` re-sends and adds exactly one to the counter;
an expiry with `counter + 1 ≥ limit` (`=` for the NAK procedure) declares the limit fault and does
not re-send; progress resets the counter.  `C04_expiry_count` turns this into "exactly at the N-th
consecutive expiry"; the abandon rule for a timed-out cancellation exchange is
`C14_source_fault_in_cancel_exchange` / `C14_dest_fault_in_cancel_exchange`.
-/
set_option linter.unusedSimpArgs false
set_option linter.unusedVariables false

namespace Cfdp.C04

open Cfdp

/-! ### sender: EOF awaiting its ACK -/

theorem C04_source_no_early_expiry (env : Source.Env) (s : Source.SrcSt) (t : Timer) (rc : RemoteCfg)
    (ht : s.p.ackTimer = some t) (hrc : s.p.remoteCfg = some rc) (hbusy : t.timedOut env.now = false) :
    Source.handlePositiveAckProcedures env s = .ok () s := by
  msimp [Source.handlePositiveAckProcedures, Source.getP, ht, hrc, hbusy]

/-- an expiry below the limit: exactly one EOF PDU is re-sent (same condition code as the EOF being
acknowledged, size = progress, checksum of the file), the counter grows by one, the timer restarts
at the current time; no fault is declared -/
theorem C04_source_expiry_resends (env : Source.Env) (s : Source.SrcSt) (t : Timer) (rc : RemoteCfg)
    (req : Source.PutReq) (src : String) (F cks : List UInt8) (cond : Nat) (tid : Tid)
    (ht : s.p.ackTimer = some t) (hrc : s.p.remoteCfg = some rc) (hexp : t.timedOut env.now = true)
    (hlim : s.p.ackCounter + 1 < rc.ackLim)
    (hreq : s.putReq = some req) (hsrc : req.src = some src) (hmo : s.p.metadataOnly = false)
    (hfile : s.fs.get src = some (.file F)) (hnull : Checksum.CksType.ofNat rc.cks ≠ .null)
    (hcks : Checksum.calcChecksum (Checksum.CksType.ofNat rc.cks) F s.p.fileSize s.p.segmentLen = .ok cks)
    (hlen : cks.length = 4) (hcond : s.p.condCodeEof = some cond) (htid : s.p.tid = some tid) :
    ∃ s', Source.handlePositiveAckProcedures env s = .ok () s' ∧
      s'.queue = s.queue ++ [Source.mkEof s.p.conf cond cks s.p.progress] ∧
      s'.p.ackCounter = s.p.ackCounter + 1 ∧ s'.p.ackTimer = some ⟨env.now, t.timeout⟩ ∧
      s'.flts = s.flts ∧ s'.step = s.step ∧ s'.state = s.state := by
  have hl : ¬ rc.ackLim ≤ s.p.ackCounter + 1 := by omega
  have hc : Fs.calcChecksum s.fs (Checksum.CksType.ofNat rc.cks) src s.p.fileSize s.p.segmentLen = .ok cks := by
    simp [Fs.calcChecksum, hnull, hfile, hcks]
  cases hi : env.cfg.indEofSent <;>
  · apply Exists.intro
    constructor
    · msimp [Source.handlePositiveAckProcedures, Source.getP, ht, hrc, hexp, hl, Source.modP,
        Source.checksumCalculation, hreq, hsrc, hmo, hc,
        Source.prepareEofPdu, hcond, hlen, Source.addPacket, hi, htid, Source.emitInd]
      rfl
    · simp [Timer.reset]

/-- an expiry at the limit declares Positive-ACK-limit-reached and re-sends nothing itself: the call
is exactly the fault declaration (whose effect the table decides, `Props/C14`) -/
theorem C04_source_expiry_at_limit (env : Source.Env) (s : Source.SrcSt) (t : Timer) (rc : RemoteCfg)
    (ht : s.p.ackTimer = some t) (hrc : s.p.remoteCfg = some rc) (hexp : t.timedOut env.now = true)
    (hlim : s.p.ackCounter + 1 ≥ rc.ackLim) :
    Source.handlePositiveAckProcedures env s = Source.declareFault env ccPositiveAckLimit s := by
  have hl : rc.ackLim ≤ s.p.ackCounter + 1 := by omega
  msimp [Source.handlePositiveAckProcedures, Source.getP, ht, hrc, hexp, hl]

/-- progress: the awaited ACK (EOF) leaves the wait; the counter is started from zero whenever the
procedure is (re)started -/
theorem C04_source_ack_leaves_wait (env : Source.Env) (s : Source.SrcSt) (h : Hdr) (c ts : Nat) :
    Source.handleWaitingForAck env (some (.ack h dtEof c ts)) s =
      .ok () { s with step := .WAITING_FOR_FINISHED } := by
  msimp [Source.handleWaitingForAck, Source.handleRetransmission]

theorem C04_source_procedure_start (env : Source.Env) (s : Source.SrcSt) (rc : RemoteCfg)
    (hrc : s.p.remoteCfg = some rc) :
    Source.startPositiveAckProcedure env s =
      .ok () { s with step := .WAITING_FOR_EOF_ACK,
                      p := { s.p with ackTimer := some ⟨env.now, rc.ackMs⟩, ackCounter := 0 } } := by
  msimp [Source.startPositiveAckProcedure, Source.getP, hrc, Source.modP]

/-! ### receiver: Finished awaiting its ACK -/

theorem C04_dest_no_early_expiry (env : Dest.Env) (d : Dest.DestSt) (t : Timer) (rc : RemoteCfg)
    (r : Dest.DM Unit)
    (ht : d.p.ackTimer = some t) (hrc : d.p.remoteCfg = some rc) (hbusy : t.timedOut env.now = false) :
    Dest.handlePositiveAckProcedures env r d = .ok () d := by
  msimp [Dest.handlePositiveAckProcedures, Dest.getP, ht, hrc, hbusy]

theorem C04_dest_expiry_resends (env : Dest.Env) (d : Dest.DestSt) (t : Timer) (rc : RemoteCfg)
    (r : Dest.DM Unit)
    (ht : d.p.ackTimer = some t) (hrc : d.p.remoteCfg = some rc) (hexp : t.timedOut env.now = true)
    (hlim : d.p.ackCounter + 1 < rc.ackLim) (hq : d.numReady = 0) :
    Dest.handlePositiveAckProcedures env r d =
      .ok () { d with queue := d.queue ++ [Dest.mkFin d.p.conf d.p.fin], numReady := 1,
                      p := { d.p with ackTimer := some ⟨env.now, t.timeout⟩,
                                      ackCounter := d.p.ackCounter + 1 } } := by
  have hl : ¬ rc.ackLim ≤ d.p.ackCounter + 1 := by omega
  msimp [Dest.handlePositiveAckProcedures, Dest.getP, ht, hrc, hexp, hl, Dest.resendFinished, Dest.modP,
    Dest.prepareFinishedPdu, hq, Dest.addPacket, Timer.reset]

/-- at the limit: the fault is declared; with the transaction already cancelled (Finished (cancel)
exchange) and the default table this abandons (`C14_dest_fault_in_cancel_exchange`) and the call
ends with the handler idle, re-sending nothing -/
theorem C04_dest_expiry_at_limit_abandons (env : Dest.Env) (d : Dest.DestSt) (t : Timer) (rc : RemoteCfg)
    (r : Dest.DM Unit) (tid : Tid)
    (ht : d.p.ackTimer = some t) (hrc : d.p.remoteCfg = some rc) (hexp : t.timedOut env.now = true)
    (hlim : d.p.ackCounter + 1 ≥ rc.ackLim) (htid : d.p.tid = some tid)
    (hfh : d.faults.lookup ccPositiveAckLimit = some fhCancel)
    (hx : C14.Dest.inCancelExchange d = true) :
    Dest.handlePositiveAckProcedures env r d =
      .ok () { d with state := .idle, step := .IDLE, p := {},
                      flts := d.flts ++ [⟨fhAbandon, tid, d.p.fin.cond, d.p.progress⟩] } := by
  have hl : rc.ackLim ≤ d.p.ackCounter + 1 := by omega
  have := C14.C14_dest_fault_in_cancel_exchange d ccPositiveAckLimit tid htid hfh hx
  msimp [Dest.handlePositiveAckProcedures, Dest.getP, ht, hrc, hexp, hl, this]

/-- at the limit, first time (not yet cancelled): the fault cancels the transaction and the nested
call (`recurse`) completes it, i.e. sends the Finished (cancel) -/
theorem C04_dest_expiry_at_limit_cancels (env : Dest.Env) (d : Dest.DestSt) (t : Timer) (rc : RemoteCfg)
    (r : Dest.DM Unit) (tid : Tid)
    (ht : d.p.ackTimer = some t) (hrc : d.p.remoteCfg = some rc) (hexp : t.timedOut env.now = true)
    (hlim : d.p.ackCounter + 1 ≥ rc.ackLim) (htid : d.p.tid = some tid) (hb : d.state = .busy)
    (hfh : d.faults.lookup ccPositiveAckLimit = some fhCancel)
    (hx : C14.Dest.inCancelExchange d = false) :
    Dest.handlePositiveAckProcedures env r d =
      r { d with step := .TRANSFER_COMPLETION,
                 p := { d.p with fin := { d.p.fin with cond := ccPositiveAckLimit }, canceled := true },
                 flts := d.flts ++ [⟨fhCancel, tid, ccPositiveAckLimit, d.p.progress⟩] } := by
  have hl : rc.ackLim ≤ d.p.ackCounter + 1 := by omega
  have := C14.C14_dest_cancel d ccPositiveAckLimit tid htid hfh hx
  msimp [Dest.handlePositiveAckProcedures, Dest.getP, ht, hrc, hexp, hl, this, hb]

/-- progress: any ACK ends the transaction -/
theorem C04_dest_ack_ends (env : Dest.Env) (d : Dest.DestSt) (h : Hdr) (o c ts : Nat) (r : Dest.DM Unit) :
    Dest.handleWaitingForFinishedAck env (some (.ack h o c ts)) r d =
      .ok () { d with state := .idle, step := .IDLE, p := {} } := by
  msimp [Dest.handleWaitingForFinishedAck, Dest.resetInternal]

/-! ### receiver: NAK sequences awaiting missing data -/

theorem C04_nak_no_early_expiry (env : Dest.Env) (d : Dest.DestSt) (t : Timer) (rc : RemoteCfg) (fse : Nat)
    (ha : d.p.deferredActive = true) (hnc : d.p.canceled = false) (hrc : d.p.remoteCfg = some rc) (hf : d.p.fileSizeEof = some fse)
    (hmiss : d.p.trk ≠ [] ∨ d.p.metadataMissing = true)
    (ht : d.p.procTimer = some t) (hbusy : t.timedOut env.now = false) :
    Dest.deferredLostSegmentHandling env d = .ok () d := by
  have hm : ¬(d.p.trk = [] ∧ d.p.metadataMissing = false) := by
    rcases hmiss with h | h <;> simp [h]
  msimp [Dest.deferredLostSegmentHandling, Dest.getP, ha, hnc, hrc, hf, hm, ht, Timer.busy, hbusy]

/-- an expiry below the limit re-issues the whole NAK sequence and adds exactly one to the counter -/
theorem C04_nak_expiry_reissues (env : Dest.Env) (d : Dest.DestSt) (t : Timer) (rc : RemoteCfg)
    (fse maxSegs : Nat)
    (ha : d.p.deferredActive = true) (hnc : d.p.canceled = false) (hrc : d.p.remoteCfg = some rc) (hf : d.p.fileSizeEof = some fse)
    (hmiss : d.p.trk ≠ [] ∨ d.p.metadataMissing = true)
    (ht : d.p.procTimer = some t) (hexp : t.timedOut env.now = true)
    (hlim : d.p.nakCounter + 1 ≠ rc.nakLim) (hmax : maxSegReqs rc.maxPkt d.p.conf = some maxSegs) :
    let naks := Dest.nakSequence d.p.conf fse maxSegs d.p.metadataMissing d.p.trk
    Dest.deferredLostSegmentHandling env d =
      .ok () { d with queue := d.queue ++ naks, numReady := d.numReady + naks.length,
                      p := { d.p with nakCounter := d.p.nakCounter + 1,
                                      procTimer := some ⟨env.now, t.timeout⟩ } } := by
  have hm : ¬(d.p.trk = [] ∧ d.p.metadataMissing = false) := by
    rcases hmiss with h | h <;> simp [h]
  msimp [Dest.deferredLostSegmentHandling, Dest.getP, ha, hnc, hrc, hf, hm, ht, Timer.busy, hexp, hlim, hmax,
    Dest.addPackets, Dest.modP, Timer.reset]

/-- an expiry with `counter + 1 = limit` declares NAK-limit-reached and sends no NAK -/
theorem C04_nak_expiry_at_limit (env : Dest.Env) (d : Dest.DestSt) (t : Timer) (rc : RemoteCfg) (fse : Nat)
    (ha : d.p.deferredActive = true) (hnc : d.p.canceled = false) (hrc : d.p.remoteCfg = some rc) (hf : d.p.fileSizeEof = some fse)
    (hmiss : d.p.trk ≠ [] ∨ d.p.metadataMissing = true)
    (ht : d.p.procTimer = some t) (hexp : t.timedOut env.now = true)
    (hlim : d.p.nakCounter + 1 = rc.nakLim) :
    Dest.deferredLostSegmentHandling env d =
      (do let _ ← Dest.declareFault ccNakLimit; pure ()) d := by
  have hm : ¬(d.p.trk = [] ∧ d.p.metadataMissing = false) := by
    rcases hmiss with h | h <;> simp [h]
  msimp [Dest.deferredLostSegmentHandling, Dest.getP, ha, hnc, hrc, hf, hm, ht, Timer.busy, hexp, hlim]

/-- progress resets the NAK activity counter and restarts the timer -/
theorem C04_nak_progress_resets (env : Dest.Env) (d : Dest.DestSt) (t : Timer)
    (ht : d.p.procTimer = some t) :
    Dest.resetNakActivityParameters env d =
      .ok () { d with p := { d.p with nakCounter := 0, procTimer := some ⟨env.now, t.timeout⟩ } } := by
  msimp [Dest.resetNakActivityParameters, Dest.getP, ht, Dest.modP, Timer.reset]

/-! ### "exactly at the N-th consecutive expiry" -/

/-- A counter that starts at `c`, grows by one at every expiry below the limit and triggers the
fault at the first expiry with `counter + 1 ≥ limit`: the fault occurs at expiry number
`limit - c` (counted from 1) and at no earlier one; for a fresh procedure (`c = 0`) that is the
`limit`-th expiry.  (The NAK procedure tests `=`; for `c < limit` the two tests agree.) -/
theorem C04_expiry_count (c lim : Nat) (hl : 1 ≤ lim) (hc : c < lim) :
    (∀ j, j + 1 < lim - c → (c + j) + 1 < lim) ∧ ((c + (lim - c - 1)) + 1 ≥ lim) ∧
    ((c + (lim - c - 1)) + 1 = lim) := by
  refine ⟨?_, ?_, ?_⟩ <;> omega

/-- with the default table a silent peer makes the sender idle after at most `2·limit` expiries:
`limit` until the fault cancels (EOF (cancel) sent, counter restarted from 0 by
`C04_source_procedure_start`), `limit` more until the fault during the cancel exchange abandons
(`C14_source_fault_in_cancel_exchange`); every expiry in between re-sends exactly one EOF, so at
most `2·(limit − 1) + 1` EOF PDUs follow the original one -/
theorem C04_silent_peer_bound (lim : Nat) (hl : 1 ≤ lim) :
    (lim - 0) + (lim - 0) = 2 * lim ∧ (lim - 1) + 1 + (lim - 1) = 2 * (lim - 1) + 1 := by
  omega

end Cfdp.C04
