import CfdpVerif.Model.World
import CfdpVerif.Lemmas.Monad
import CfdpVerif.Lemmas.InvDestQueue
import CfdpVerif.Props.C15
import CfdpVerif.Lemmas.SafeDest
import CfdpVerif.Lemmas.SafeSource
import CfdpVerif.Props.C14
/-!
# C10 — handlers fail only with protocol exceptions and only when the caller is at fault

Proved here (for every handler state and every PDU): the admission check has no side effect and a
PDU it rejects leaves the whole handler state — state, step, progress, queue, filestore, every
private field — unchanged (`C10_*_rejected_pdu_changes_nothing`); the exceptions it raises are
protocol exceptions; `UnretrievedPdusToBeSent` is raised only at sites guarded by a non-empty queue
/ positive packets-ready counter.
`C10_dest_no_internal_error*`: **no internal error, for every history** (destination handler).  The
model raises at every `assert` / `None` dereference / `ValueError` site of the Python; `Dest.Safe.DInv`
is an invariant of the state machine (true of a new handler, preserved by every public call and by
`set_handler`, whether the call returns or raises), and from a state satisfying it no public call
raises an assertion, attribute, type, key, value or struct error — provided a NAK PDU with the
inbound PDU's header fits the sender's `max_packet_len` (`Fits`; where it does not, the real code
leaks `ValueError`: the listed finding `nak-base-exceeds-max-packet-len`).  Proof: one Hoare triple
per model method (`Lemmas/SafeDest.lean`, `Std.Do` verification conditions closed by `grind`).
-/
set_option linter.unusedSimpArgs false
set_option linter.unusedVariables false

namespace Cfdp.C10

open Cfdp

/-! ### admission has no side effects -/

theorem dest_admission_read_only (env : Dest.Env) (pdu : Pdu) :
    ReadOnly (Dest.checkInsertedPacket env pdu) := by
  unfold Dest.checkInsertedPacket Dest.handleFirstPacketNotMetadataPdu Dest.transmissionMode
  read_only

theorem source_admission_read_only (env : Source.Env) (pdu : Pdu) :
    ReadOnly (Source.checkInsertedPacket env pdu) := by
  unfold Source.checkInsertedPacket
  read_only

/-- **A PDU rejected by the receiver's admission check changes nothing**: `state_machine(pdu)` raises
the admission check's exception and the handler state after the call *is* the state before it —
state, step, progress, counters, queued PDUs, filestore and every private field. -/
theorem C10_dest_rejected_pdu_changes_nothing (env : Dest.Env) (pdu : Pdu) (d d' : Dest.DestSt) (e : Err)
    (h : Dest.checkInsertedPacket env pdu d = .error e d') :
    Dest.stateMachine env (some pdu) d = .error e d := by
  have hd : d' = d := (dest_admission_read_only env pdu).error_state h
  subst hd
  msimp [Dest.stateMachine, Dest.stateMachineWith, h]

theorem C10_source_rejected_pdu_changes_nothing (env : Source.Env) (pdu : Pdu) (s s' : Source.SrcSt) (e : Err)
    (h : Source.checkInsertedPacket env pdu s = .error e s') :
    Source.stateMachine env (some pdu) s = .error e s := by
  have hd : s' = s := (source_admission_read_only env pdu).error_state h
  subst hd
  msimp [Source.stateMachine, h]

/-! ### `UnretrievedPdusToBeSent` -/

/-- **The receiver's packets-ready counter is the queue length, after every call sequence.**  So the
three guards that raise `UnretrievedPdusToBeSent` (`_fsm_advancement_after_packets_were_sent` tests
the queue, `cancel_request` and `_prepare_finished_pdu` test the counter) all mean: PDUs are really
still queued. -/
theorem C10_dest_counter_is_queue_length (env : Dest.Env) (calls : List C15.DCall) (s : Dest.DestSt)
    (h : s.numReady = s.queue.length) :
    (calls.foldl (fun s c => c.run env s) s).numReady = (calls.foldl (fun s c => c.run env s) s).queue.length := by
  induction calls generalizing s with
  | nil => exact h
  | cons c cs ih =>
    apply ih
    cases c with
    | sm pkt => exact Dest.Queue.stateMachine_q env pkt s h
    | get => exact Dest.Queue.getNextPacket_q env s h
    | cancel t => exact Dest.Queue.cancelRequest_q env t s h
    | reset => exact Dest.Queue.reset_q env s h

/-- the guard at the top of the receiver's state machine raises exactly when PDUs are queued, and
then nothing at all has happened -/
theorem C10_dest_unretrieved_guard (env : Dest.Env) (d : Dest.DestSt) :
    (d.queue ≠ [] → Dest.fsmAdvancementAfterPacketsWereSent env d = .error .unretrievedPdus d) ∧
    (d.queue = [] → d.step ≠ .SENDING_EOF_ACK_PDU →
      Dest.fsmAdvancementAfterPacketsWereSent env d = .ok () d) := by
  constructor
  · intro h
    have : d.queue.length > 0 := by cases hq : d.queue <;> simp_all
    msimp [Dest.fsmAdvancementAfterPacketsWereSent, this]
  · intro h hs
    msimp [Dest.fsmAdvancementAfterPacketsWereSent, h, hs]

/-- the sender's guard likewise -/
theorem C10_source_unretrieved_guard (s : Source.SrcSt) (h : s.queue ≠ []) :
    Source.fsmAdvancementAfterPacketsWereSent s = .error .unretrievedPdus s := by
  have : s.queue.length > 0 := by cases hq : s.queue <;> simp_all
  msimp [Source.fsmAdvancementAfterPacketsWereSent, this]

/-- the library's own exception classes vs. the internal errors the property forbids -/
theorem C10_exception_classes :
    Err.isProtocol .unretrievedPdus = true ∧ Err.isProtocol .invalidPduDirection = true ∧
    Err.isProtocol .invalidNakPdu = true ∧ Err.isProtocol .pduIgnoredForDest = true ∧
    Err.isProtocol .assertionError = false ∧ Err.isProtocol .attributeError = false ∧
    Err.isProtocol .typeError = false ∧ Err.isProtocol .keyError = false ∧
    Err.isProtocol .valueError = false ∧ Err.isProtocol .structError = false := by decide

/-! ### no internal error, for every reachable state and every input (destination handler) -/

open Dest.Safe in
/-- a handler as constructed satisfies the invariant (any fault handler table that has an entry
for each condition the handler declares — `set_handler` cannot remove entries) -/
theorem C10_dest_invariant_init (faults : List (Nat × Nat)) (hf : FaultsOk faults) :
    DInv ({ faults := faults } : Dest.DestSt) := by
  simp only [DInv, Core, TimerOk]
  refine ⟨⟨hf, ?_⟩, ?_⟩ <;> simp

open Dest.Safe in
theorem C10_default_table_ok : FaultsOk defaultFaultTable := by
  simp only [FaultsOk]; decide

/-- outcome of a call as the caller sees it: it returned, or it raised `e` -/
def raised {σ α : Type} : EStateM.Result Err σ α → Option Err
  | .ok _ _ => none
  | .error e _ => some e

/-- a raised exception is not one of the internal errors -/
def notInternal (o : Option Err) : Prop := ∀ e, o = some e → e.isInternal = false

open Dest.Safe in
/-- **`state_machine`**: from every state satisfying the invariant and for every PDU (of any type
and content, from any sender, in any step) the call returns or raises an exception that is not an
internal error, and the invariant holds afterwards -/
theorem C10_dest_no_internal_error (env : Dest.Env) (pkt : Option Pdu) (s : Dest.DestSt)
    (hi : DInv s) (hf : Fits env pkt) :
    notInternal (raised (Dest.stateMachine env pkt s)) ∧ DInv (stateOf (Dest.stateMachine env pkt s)) := by
  have := triple_elim _ _ _ _ (stateMachine_spec env pkt hf) s hi
  cases h : Dest.stateMachine env pkt s <;> simp [h, raised, notInternal, stateOf] at this ⊢
  · exact this
  · exact ⟨this.2, this.1⟩

open Dest.Safe in
theorem C10_dest_get_next_packet (s : Dest.DestSt) (hi : DInv s) :
    notInternal (raised (Dest.getNextPacket s)) ∧ DInv (stateOf (Dest.getNextPacket s)) := by
  have := triple_elim _ _ _ _ getNextPacket_spec s hi
  cases h : Dest.getNextPacket s <;> simp [h, raised, notInternal, stateOf] at this ⊢
  · exact this
  · exact ⟨this.2, this.1⟩

open Dest.Safe in
theorem C10_dest_cancel_request (env : Dest.Env) (tid : Tid) (s : Dest.DestSt) (hi : DInv s) :
    notInternal (raised (Dest.cancelRequest env tid s)) ∧ DInv (stateOf (Dest.cancelRequest env tid s)) := by
  have := triple_elim _ _ _ _ (cancelRequest_spec env tid) s hi
  cases h : Dest.cancelRequest env tid s <;> simp [h, raised, notInternal, stateOf] at this ⊢
  · exact this
  · exact ⟨this.2, this.1⟩

open Dest.Safe in
theorem C10_dest_reset (s : Dest.DestSt) (hi : DInv s) :
    notInternal (raised (Dest.reset s)) ∧ DInv (stateOf (Dest.reset s)) := by
  have := triple_elim _ _ _ _ reset_spec s hi
  cases h : Dest.reset s <;> simp [h, raised, notInternal, stateOf] at this ⊢
  · exact this
  · exact ⟨this.2, this.1⟩

/-- what the user and the peer can do to a destination handler between two observations -/
inductive DOp where
  | sm (pkt : Option Pdu) | get | cancel (tid : Tid) | reset
  | setHandler (cond code : Nat)        -- `fault_handler.set_handler(cond, code)`
  | injectReject (e : FsErr)            -- the filestore will refuse the next write with `e`

/-- one operation: the exception it raised (if any) and the state afterwards -/
def DOp.run (env : Dest.Env) : DOp → Dest.DestSt → Option Err × Dest.DestSt
  | .sm pkt, s => (raised (Dest.stateMachine env pkt s), stateOf (Dest.stateMachine env pkt s))
  | .get, s => (raised (Dest.getNextPacket s), stateOf (Dest.getNextPacket s))
  | .cancel t, s => (raised (Dest.cancelRequest env t s), stateOf (Dest.cancelRequest env t s))
  | .reset, s => (raised (Dest.reset s), stateOf (Dest.reset s))
  | .setHandler c f, s =>
    match setFaultHandler s.faults c f with
    | some t => (none, { s with faults := t })
    | none => (some .valueError, s)       -- `set_handler` of a condition outside the table: documented ValueError of the configuration API (C14), not a handler call
  | .injectReject e, s => (none, { s with rejects := s.rejects ++ [e] })

/-- the hypotheses on an operation: a PDU whose NAK fits, a rejection of the `OSError` family -/
def DOp.ok (env : Dest.Env) : DOp → Prop
  | .sm pkt => Dest.Safe.Fits env pkt
  | .injectReject e => (Err.ofFs e).isInternal = false
  | _ => True

theorem lookup_setFaultHandler (t t' : List (Nat × Nat)) (c f k : Nat)
    (h : setFaultHandler t c f = some t') (hk : t.lookup k ≠ none) : t'.lookup k ≠ none := by
  unfold setFaultHandler at h
  split at h
  · rename_i hc
    simp at h; subst h
    rw [C14.lookup_map_set]
    split
    · rename_i hkc
      subst hkc
      cases hl : t.lookup k with
      | none => exact absurd hl hk
      | some v => simp
    · exact hk
  · simp at h

open Dest.Safe in
/-- every operation preserves the invariant, and no operation on the handler raises an internal error -/
theorem C10_dest_step (env : Dest.Env) (op : DOp) (s : Dest.DestSt) (hi : DInv s) (ho : op.ok env) :
    DInv (op.run env s).2 ∧ (notInternal (op.run env s).1 ∨ ∃ c f, op = .setHandler c f) := by
  cases op with
  | sm pkt => exact ⟨(C10_dest_no_internal_error env pkt s hi ho).2, .inl (C10_dest_no_internal_error env pkt s hi ho).1⟩
  | get => exact ⟨(C10_dest_get_next_packet s hi).2, .inl (C10_dest_get_next_packet s hi).1⟩
  | cancel t => exact ⟨(C10_dest_cancel_request env t s hi).2, .inl (C10_dest_cancel_request env t s hi).1⟩
  | reset => exact ⟨(C10_dest_reset s hi).2, .inl (C10_dest_reset s hi).1⟩
  | setHandler c f =>
    refine ⟨?_, .inr ⟨c, f, rfl⟩⟩
    simp only [DOp.run]
    cases hset : setFaultHandler s.faults c f with
    | none => exact hi
    | some t =>
      have hl := fun k => lookup_setFaultHandler s.faults t c f k hset
      simp only [DInv, Core, TimerOk, FaultsOk] at hi ⊢
      obtain ⟨⟨⟨f1, f2, f3, f4, f5, f6⟩, rest⟩, tm⟩ := hi
      exact ⟨⟨⟨hl _ f1, hl _ f2, hl _ f3, hl _ f4, hl _ f5, hl _ f6⟩, rest⟩, tm⟩
  | injectReject e =>
    refine ⟨?_, .inl (by intro e' h; simp [DOp.run] at h)⟩
    simp only [DOp.ok] at ho
    simp only [DOp.run, DInv, Core, TimerOk] at hi ⊢
    obtain ⟨⟨f1, f2, f3, f4, f5, f6, f7, f8⟩, tm⟩ := hi
    refine ⟨⟨f1, f2, f3, f4, f5, f6, f7, ?_⟩, tm⟩
    intro e' he'
    rcases List.mem_append.mp he' with h | h
    · exact f8 e' h
    · simp at h; subst h; exact ho

/-- the states reached by a sequence of operations -/
def runOps (env : Dest.Env) (s : Dest.DestSt) (ops : List DOp) : Dest.DestSt :=
  ops.foldl (fun s op => (op.run env s).2) s

open Dest.Safe in
/-- **No internal error, for every history.**  Start from a new handler (or any state satisfying the
invariant); let the user and the peer do anything, in any order, any number of times —
`state_machine` with any PDU or none, `get_next_packet`, `cancel_request`, `reset`, reconfigure the
fault handler table, let the filestore refuse writes —; then the next call on the handler returns or
raises an exception that is not an assertion, attribute, type, key, value or struct error. -/
theorem C10_dest_no_internal_error_all_histories (env : Dest.Env) (s : Dest.DestSt) (hi : DInv s)
    (ops : List DOp) (hops : ∀ op ∈ ops, op.ok env) (last : DOp) (hl : last.ok env)
    (hcall : ∀ c f, last ≠ .setHandler c f) :
    notInternal (last.run env (runOps env s ops)).1 := by
  have hinv : DInv (runOps env s ops) := by
    unfold runOps
    induction ops generalizing s with
    | nil => exact hi
    | cons op ops ih =>
      simp only [List.foldl_cons]
      apply ih
      · exact (C10_dest_step env op s hi (hops op (List.mem_cons_self))).1
      · intro o ho; exact hops o (List.mem_cons_of_mem _ ho)
  rcases (C10_dest_step env last _ hinv hl).2 with h | ⟨c, f, h⟩
  · exact h
  · exact absurd h (hcall c f)

/-- the theorem is not vacuous: a new handler with the default table satisfies the invariant, and
a Metadata PDU from a configured sender with an ordinary `max_packet_len` satisfies `Fits` -/
example : Dest.Safe.DInv ({ faults := defaultFaultTable } : Dest.DestSt) :=
  C10_dest_invariant_init _ C10_default_table_ok

/-! ### no internal error, for every reachable state and every input (source handler) -/

open Source.Safe in
theorem C10_source_invariant_init (faults : List (Nat × Nat)) (hf : Source.Safe.FaultsOk faults)
    (prov : Source.SeqProv) (hp : prov.bits = 8 ∨ prov.bits = 16 ∨ prov.bits = 32) (fs : Fs) :
    SInv ({ faults := faults, prov := prov, fs := fs } : Source.SrcSt) := by
  simp only [SInv, InStep]
  refine ⟨hf, hp, ?_⟩
  simp

theorem C10_source_default_table_ok : Source.Safe.FaultsOk defaultFaultTable := by
  simp only [Source.Safe.FaultsOk]; decide

/-- what the user and the peer can do to a source handler -/
inductive SOp where
  | put (req : Source.PutReq) | sm (pkt : Option Pdu) | get | cancel (tid : Tid) | reset
  | setHandler (cond code : Nat)
  | otherTransaction                     -- another handler took a number from the shared provider

def SOp.run (env : Source.Env) : SOp → Source.SrcSt → Option Err × Source.SrcSt
  | .put r, s => (raised (Source.putRequest env r s), stateOf (Source.putRequest env r s))
  | .sm pkt, s => (raised (Source.stateMachine env pkt s), stateOf (Source.stateMachine env pkt s))
  | .get, s => (raised (Source.getNextPacket s), stateOf (Source.getNextPacket s))
  | .cancel t, s => (raised (Source.cancelRequest env t s), stateOf (Source.cancelRequest env t s))
  | .reset, s => (raised (Source.reset s), stateOf (Source.reset s))
  | .setHandler c f, s =>
    match setFaultHandler s.faults c f with
    | some t => (none, { s with faults := t })
    | none => (some .valueError, s)
  | .otherTransaction, s =>
    (none, { s with prov := { s.prov with next := (s.prov.next + 1) % Source.provWrap s.prov.bits } })

/-- hypotheses on an operation in the state it is applied to: a put request names source and
destination file together (or neither); when the state machine runs, the segment length the
transaction start derives exists and is positive (`SegFits`) -/
def SOp.ok (env : Source.Env) (s : Source.SrcSt) : SOp → Prop
  | .put r => Source.Safe.ReqOk r
  | .sm _ => Source.Safe.SegFits env s
  | _ => True

open Source.Safe in
theorem C10_source_step (env : Source.Env) (op : SOp) (s : Source.SrcSt) (hi : SInv s) (ho : op.ok env s) :
    SInv (op.run env s).2 ∧ (notInternal (op.run env s).1 ∨ ∃ c f, op = .setHandler c f) := by
  cases op with
  | put r =>
    have := triple_elim _ _ _ _ (putRequest_spec env r ho) s hi
    cases h : Source.putRequest env r s <;> simp [h, SOp.run, raised, notInternal, stateOf] at this ⊢
    · exact this
    · exact this
  | sm pkt =>
    have := triple_elim _ _ _ _ (stateMachine_spec env pkt) s ⟨hi, ho⟩
    cases h : Source.stateMachine env pkt s <;> simp [h, SOp.run, raised, notInternal, stateOf] at this ⊢
    · exact this
    · exact this
  | get =>
    have := triple_elim _ _ _ _ getNextPacket_spec s hi
    cases h : Source.getNextPacket s <;> simp [h, SOp.run, raised, notInternal, stateOf] at this ⊢
    · exact this
    · exact this
  | cancel t =>
    have := triple_elim _ _ _ _ (cancelRequest_spec env t) s hi
    cases h : Source.cancelRequest env t s <;> simp [h, SOp.run, raised, notInternal, stateOf] at this ⊢
    · exact this
    · exact this
  | reset =>
    have := triple_elim _ _ _ _ reset_spec s hi
    cases h : Source.reset s <;> simp [h, SOp.run, raised, notInternal, stateOf] at this ⊢
    · exact this
    · exact this
  | setHandler c f =>
    refine ⟨?_, .inr ⟨c, f, rfl⟩⟩
    simp only [SOp.run]
    cases hset : setFaultHandler s.faults c f with
    | none => exact hi
    | some t =>
      have hl := fun k => lookup_setFaultHandler s.faults t c f k hset
      simp only [SInv, Source.Safe.FaultsOk, InStep] at hi ⊢
      obtain ⟨⟨f1, f2⟩, rest⟩ := hi
      exact ⟨⟨hl _ f1, hl _ f2⟩, rest⟩
  | otherTransaction =>
    refine ⟨?_, .inl (by intro e' h; simp [SOp.run] at h)⟩
    simp only [SOp.run, SInv, InStep] at hi ⊢
    exact hi

def runSOps (env : Source.Env) (s : Source.SrcSt) (ops : List SOp) : Source.SrcSt :=
  ops.foldl (fun s op => (op.run env s).2) s

/-- the hypotheses hold for each operation in the state it is applied to -/
def SOpsOk (env : Source.Env) : Source.SrcSt → List SOp → Prop
  | _, [] => True
  | s, op :: rest => op.ok env s ∧ SOpsOk env (op.run env s).2 rest

open Source.Safe in
/-- **No internal error, for every history** (source handler): after any sequence of put requests,
state machine calls with any PDU or none, packet retrievals, cancel requests, resets, fault table
reconfigurations and transactions of other handlers sharing the sequence number provider, the next
call returns or raises an exception that is not an assertion, attribute, type, key, value or struct
error. -/
theorem C10_source_no_internal_error_all_histories (env : Source.Env) (s : Source.SrcSt) (hi : SInv s)
    (ops : List SOp) (hops : SOpsOk env s ops) (last : SOp) (hl : last.ok env (runSOps env s ops))
    (hcall : ∀ c f, last ≠ .setHandler c f) :
    notInternal (last.run env (runSOps env s ops)).1 := by
  have hinv : SInv (runSOps env s ops) := by
    unfold runSOps
    induction ops generalizing s with
    | nil => exact hi
    | cons op ops ih =>
      simp only [List.foldl_cons]
      exact ih _ (C10_source_step env op s hi hops.1).1 hops.2 (by simpa [runSOps] using hl)
  rcases (C10_source_step env last _ hinv hl).2 with h | ⟨c, f, h⟩
  · exact h
  · exact absurd h (hcall c f)

/-! ### the hypotheses are satisfiable (non-vacuity) -/

/-- a remote entity configuration as the tests use it: `max_packet_len` 256, two-byte ids -/
def exRemote : RemoteCfg :=
  { entityId := ⟨2, 2⟩, maxSeg := some 64, maxPkt := 256, closure := false, crc := false, mode := .ack,
    cks := 3, ackMs := 1000, ackLim := 3, chkLim := 3, disp := false, imm := false, nakMs := 1000, nakLim := 3 }

def exDestEnv : Dest.Env := ⟨⟨⟨1, 2⟩, true, true, true, true, [exRemote], 1000⟩, 0⟩

def exHdr : Hdr := ⟨.toRecv, .ack, false, false, ⟨2, 2⟩, ⟨1, 2⟩, ⟨7, 2⟩⟩

/-- `Fits` holds for a Metadata PDU of that sender -/
example : Dest.Safe.Fits exDestEnv (some (.md exHdr false 3 10 (some "/a") (some "/b") none)) := by
  intro pdu h rc hrc
  cases h
  simp only [exDestEnv, lookupRemote, Pdu.hdr, exHdr] at hrc
  have : rc = exRemote := by
    simp [List.find?, exRemote] at hrc
    exact hrc.symm
  subst this
  decide

/-- `SegFits` holds for a put request to that entity from a handler with a 16-bit provider -/
example : Source.Safe.SegFits ⟨⟨⟨1, 2⟩, true, true, true, true, [exRemote], 1000⟩, 0⟩
    ({ putReq := some ⟨⟨2, 2⟩, some "/a", some "/b", none, none, none⟩,
       p := { remoteCfg := some exRemote } } : Source.SrcSt) := by
  intro req rc h1 h2 mode large sv dv qv
  simp at h1 h2
  subst h1 h2
  refine ⟨64, ?_, by decide⟩
  cases large <;> simp [Source.segLenOf, maxFileSegLen, exRemote, Hdr.len, Hdr.fss, Hdr.crcLen]

end Cfdp.C10
