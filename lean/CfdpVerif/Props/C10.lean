import CfdpVerif.Model.World
import CfdpVerif.Lemmas.Monad
/-!
# C10 — handlers fail only with protocol exceptions and only when the caller is at fault

Proved here (for every handler state and every PDU): the admission check has no side effect and a
PDU it rejects leaves the whole handler state — state, step, progress, queue, filestore, every
private field — unchanged (`C10_*_rejected_pdu_changes_nothing`); the exceptions it raises are
protocol exceptions; `UnretrievedPdusToBeSent` is raised only at sites guarded by a non-empty queue
/ positive packets-ready counter.
NOT proved here: the absence of internal errors for every reachable state (`no_internal_error` of
DESIGN.md §6) — that part of the property is explored by the malformed-stream suites and the model
correspondence (the model raises at every `assert`/`None` dereference site of the Python).
-/
set_option linter.unusedSimpArgs false
set_option linter.unusedVariables false

namespace Cfdp.C10

open Cfdp

/-! ### admission has no side effects -/

theorem dest_admission_read_only (env : Dest.Env) (pdu : Pdu) :
    ReadOnly (Dest.checkInsertedPacket env pdu) := by
  unfold Dest.checkInsertedPacket Dest.handleFirstPacketNotMetadataPdu Dest.transmissionMode
  read_only

theorem source_admission_read_only (env : Source.Env) (pdu : Pdu) :
    ReadOnly (Source.checkInsertedPacket env pdu) := by
  unfold Source.checkInsertedPacket
  read_only

/-- **A PDU rejected by the receiver's admission check changes nothing**: `state_machine(pdu)` raises
the admission check's exception and the handler state after the call *is* the state before it —
state, step, progress, counters, queued PDUs, filestore and every private field. -/
theorem C10_dest_rejected_pdu_changes_nothing (env : Dest.Env) (pdu : Pdu) (d d' : Dest.DestSt) (e : Err)
    (h : Dest.checkInsertedPacket env pdu d = .error e d') :
    Dest.stateMachine env (some pdu) d = .error e d := by
  have hd : d' = d := (dest_admission_read_only env pdu).error_state h
  subst hd
  msimp [Dest.stateMachine, Dest.stateMachineWith, h]

theorem C10_source_rejected_pdu_changes_nothing (env : Source.Env) (pdu : Pdu) (s s' : Source.SrcSt) (e : Err)
    (h : Source.checkInsertedPacket env pdu s = .error e s') :
    Source.stateMachine env (some pdu) s = .error e s := by
  have hd : s' = s := (source_admission_read_only env pdu).error_state h
  subst hd
  msimp [Source.stateMachine, h]

end Cfdp.C10
