import CfdpVerif.Model.World
import CfdpVerif.Lemmas.Monad
import CfdpVerif.Lemmas.InvDestQueue
import CfdpVerif.Props.C15
/-!
# C10 — handlers fail only with protocol exceptions and only when the caller is at fault

Proved here (for every handler state and every PDU): the admission check has no side effect and a
PDU it rejects leaves the whole handler state — state, step, progress, queue, filestore, every
private field — unchanged (`C10_*_rejected_pdu_changes_nothing`); the exceptions it raises are
protocol exceptions; `UnretrievedPdusToBeSent` is raised only at sites guarded by a non-empty queue
/ positive packets-ready counter.
NOT proved here: the absence of internal errors for every reachable state (`no_internal_error` of
DESIGN.md §6) — that part of the property is explored by the malformed-stream suites and the model
correspondence (the model raises at every `assert`/`None` dereference site of the Python).
-/
set_option linter.unusedSimpArgs false
set_option linter.unusedVariables false

namespace Cfdp.C10

open Cfdp

/-! ### admission has no side effects -/

theorem dest_admission_read_only (env : Dest.Env) (pdu : Pdu) :
    ReadOnly (Dest.checkInsertedPacket env pdu) := by
  unfold Dest.checkInsertedPacket Dest.handleFirstPacketNotMetadataPdu Dest.transmissionMode
  read_only

theorem source_admission_read_only (env : Source.Env) (pdu : Pdu) :
    ReadOnly (Source.checkInsertedPacket env pdu) := by
  unfold Source.checkInsertedPacket
  read_only

/-- **A PDU rejected by the receiver's admission check changes nothing**: `state_machine(pdu)` raises
the admission check's exception and the handler state after the call *is* the state before it —
state, step, progress, counters, queued PDUs, filestore and every private field. -/
theorem C10_dest_rejected_pdu_changes_nothing (env : Dest.Env) (pdu : Pdu) (d d' : Dest.DestSt) (e : Err)
    (h : Dest.checkInsertedPacket env pdu d = .error e d') :
    Dest.stateMachine env (some pdu) d = .error e d := by
  have hd : d' = d := (dest_admission_read_only env pdu).error_state h
  subst hd
  msimp [Dest.stateMachine, Dest.stateMachineWith, h]

theorem C10_source_rejected_pdu_changes_nothing (env : Source.Env) (pdu : Pdu) (s s' : Source.SrcSt) (e : Err)
    (h : Source.checkInsertedPacket env pdu s = .error e s') :
    Source.stateMachine env (some pdu) s = .error e s := by
  have hd : s' = s := (source_admission_read_only env pdu).error_state h
  subst hd
  msimp [Source.stateMachine, h]

/-! ### `UnretrievedPdusToBeSent` -/

/-- **The receiver's packets-ready counter is the queue length, after every call sequence.**  So the
three guards that raise `UnretrievedPdusToBeSent` (`_fsm_advancement_after_packets_were_sent` tests
the queue, `cancel_request` and `_prepare_finished_pdu` test the counter) all mean: PDUs are really
still queued. -/
theorem C10_dest_counter_is_queue_length (env : Dest.Env) (calls : List C15.DCall) (s : Dest.DestSt)
    (h : s.numReady = s.queue.length) :
    (calls.foldl (fun s c => c.run env s) s).numReady = (calls.foldl (fun s c => c.run env s) s).queue.length := by
  induction calls generalizing s with
  | nil => exact h
  | cons c cs ih =>
    apply ih
    cases c with
    | sm pkt => exact Dest.Queue.stateMachine_q env pkt s h
    | get => exact Dest.Queue.getNextPacket_q env s h
    | cancel t => exact Dest.Queue.cancelRequest_q env t s h
    | reset => exact Dest.Queue.reset_q env s h

/-- the guard at the top of the receiver's state machine raises exactly when PDUs are queued, and
then nothing at all has happened -/
theorem C10_dest_unretrieved_guard (env : Dest.Env) (d : Dest.DestSt) :
    (d.queue ≠ [] → Dest.fsmAdvancementAfterPacketsWereSent env d = .error .unretrievedPdus d) ∧
    (d.queue = [] → d.step ≠ .SENDING_EOF_ACK_PDU →
      Dest.fsmAdvancementAfterPacketsWereSent env d = .ok () d) := by
  constructor
  · intro h
    have : d.queue.length > 0 := by cases hq : d.queue <;> simp_all
    msimp [Dest.fsmAdvancementAfterPacketsWereSent, this]
  · intro h hs
    msimp [Dest.fsmAdvancementAfterPacketsWereSent, h, hs]

/-- the sender's guard likewise -/
theorem C10_source_unretrieved_guard (s : Source.SrcSt) (h : s.queue ≠ []) :
    Source.fsmAdvancementAfterPacketsWereSent s = .error .unretrievedPdus s := by
  have : s.queue.length > 0 := by cases hq : s.queue <;> simp_all
  msimp [Source.fsmAdvancementAfterPacketsWereSent, this]

/-- the library's own exception classes vs. the internal errors the property forbids -/
theorem C10_exception_classes :
    Err.isProtocol .unretrievedPdus = true ∧ Err.isProtocol .invalidPduDirection = true ∧
    Err.isProtocol .invalidNakPdu = true ∧ Err.isProtocol .pduIgnoredForDest = true ∧
    Err.isProtocol .assertionError = false ∧ Err.isProtocol .attributeError = false ∧
    Err.isProtocol .typeError = false ∧ Err.isProtocol .keyError = false ∧
    Err.isProtocol .valueError = false ∧ Err.isProtocol .structError = false := by decide

end Cfdp.C10
