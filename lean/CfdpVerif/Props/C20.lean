import CfdpVerif.Gen.Tables
/-!
# C20 — PDU routing agrees with what each handler accepts

The definitions in `Gen/Tables.lean` are REGENERATED from /repo's current code on every run
(`harness/tables.py`: complete evaluation of `get_packet_destination` and of both handlers'
`state_machine(pdu)` in every step that is reachable at a call boundary, over the whole PDU
configuration space kind × direction × mode × CRC × large × id width).  The theorems below are
re-checked against them by kernel evaluation (`decide +kernel`), so they are statements about what
the code does now.  The helper that acknowledges an inactive EOF is covered by
`C20_inactive_eof_ack` over the hand model (`Model/Pdu.lean`) + correspondence.
-/
namespace Cfdp.Route.C20

open Cfdp.Route Cfdp.Gen

/-- index of a (crc, large, width) sub-configuration in the translator's enumeration order -/
def subIndex (crc large : Bool) (w : Nat) : Nat :=
  (if crc then 8 else 0) + (if large then 4 else 0) +
  (if w = 1 then 0 else if w = 2 then 1 else if w = 4 then 2 else 3)

/-- value of a compressed row for one sub-configuration -/
def pick {α : Type} (l : List α) (i : Nat) : Option α :=
  match l with
  | [x] => some x
  | _ => l[i]?

def routeOf (k : Key) : Option (Option PacketDest) :=
  (routeTable.lookup (k.kind, k.dir, k.mode)).bind fun l => pick l (subIndex k.crc k.large k.idw)

def srcVerdict (st : SrcStep) (hm : Mode) (k : Key) : Option (Verdict × Bool) :=
  (srcAdmission.lookup (st, hm, k.kind, k.dir, k.mode)).bind fun l =>
    pick l (subIndex k.crc k.large k.idw)

def dstVerdict (st : DstStep) (hm : Mode) (k : Key) : Option (Verdict × Bool) :=
  (dstAdmission.lookup (st, hm, k.kind, k.dir, k.mode)).bind fun l =>
    pick l (subIndex k.crc k.large k.idw)

/-- handler steps (× transmission mode) that exist at a call boundary; the translator must reach
every one of them (otherwise the lookups below return `none` and the theorems fail) -/
def srcStepModes : List (SrcStep × Mode) :=
  [(.IDLE, .ack), (.PUT, .ack), (.SENDING_METADATA, .ack), (.SENDING_FILE_DATA, .ack),
   (.RETRANSMITTING, .ack), (.WAITING_FOR_EOF_ACK, .ack), (.WAITING_FOR_FINISHED, .ack),
   (.SENDING_ACK_OF_FINISHED, .ack),
   (.IDLE, .unack), (.PUT, .unack), (.SENDING_METADATA, .unack), (.SENDING_FILE_DATA, .unack),
   (.WAITING_FOR_FINISHED, .unack)]

def dstStepModes : List (DstStep × Mode) :=
  [(.IDLE, .ack), (.RECEIVING_FILE_DATA, .ack), (.SENDING_EOF_ACK_PDU, .ack),
   (.WAITING_FOR_METADATA, .ack), (.WAITING_FOR_MISSING_DATA, .ack), (.TRANSFER_COMPLETION, .ack),
   (.WAITING_FOR_FINISHED_ACK, .ack),
   (.IDLE, .unack), (.RECEIVING_FILE_DATA, .unack),
   (.RECV_FILE_DATA_WITH_CHECK_LIMIT_HANDLING, .unack), (.TRANSFER_COMPLETION, .unack)]

/-- Boolean form of "`o` is defined and satisfies `p`" (keeps the statements decidable) -/
def holds {α : Type} (o : Option α) (p : α → Bool) : Bool :=
  match o with
  | some v => p v
  | none => false

theorem holds_iff {α : Type} (o : Option α) (p : α → Bool) :
    holds o p = true ↔ ∃ v, o = some v ∧ p v = true := by
  cases o <;> simp [holds]

/-- `allKeys` really is the whole space: every key with a legal id width is in it. -/
theorem C20_allKeys_complete (k : Key) (hw : k.idw ∈ allWidths) : k ∈ allKeys := by
  obtain ⟨kind, dir, mode, crc, large, idw⟩ := k
  simp only [allKeys, allKinds, allDirs, allModes, allWidths, List.mem_flatMap, List.mem_map]
  refine ⟨kind, by cases kind <;> simp, dir, by cases dir <;> simp, mode, by cases mode <;> simp,
    crc, by cases crc <;> simp, large, by cases large <;> simp, idw, hw, rfl⟩

/-- Routing table of the code = the routing rule of the property, for every configuration:
File Data, Metadata, EOF, Prompt, ACK(Finished) → destination handler;
Finished, NAK, Keep-Alive, ACK(EOF) → source handler. -/
theorem C20_route_table :
    ∀ k ∈ allKeys, routeOf k = some (some (getPacketDestination k.kind)) := by
  decide +kernel

theorem C20_route_rule (kind : Kind) :
    (getPacketDestination kind = .dest ↔ kind ∈ [Kind.fd, .md, .eof, .pr, .ackfin]) ∧
    (getPacketDestination kind = .source ↔ kind ∈ [Kind.fin, .nak, .ka, .ackeof]) := by
  cases kind <;> decide

/-! The admission tables are checked row by row (one pass over the regenerated table), together
with their completeness: the rows are exactly `stepModes × kinds × directions × modes`, and every
row carries 1 (= all 16 agree) or 16 sub-configuration entries.  `lift` turns that into the
pointwise statement for every key of the space. -/

def expectedKeys {σ : Type} (stepModes : List (σ × Mode)) : List (σ × Mode × Kind × Dir × Mode) :=
  stepModes.flatMap fun sm => allKinds.flatMap fun k => allDirs.flatMap fun d =>
    allModes.map fun m => (sm.1, sm.2, k, d, m)

def rowsOk {σ : Type} (tbl : List ((σ × Mode × Kind × Dir × Mode) × List (Verdict × Bool)))
    (P : Kind → Verdict × Bool → Bool) : Bool :=
  tbl.all fun row => (row.2.length == 1 || row.2.length == 16) && row.2.all (P row.1.2.2.1)

theorem C20_src_table_complete : srcAdmission.map (·.1) = expectedKeys srcStepModes := by
  decide +kernel

theorem C20_dst_table_complete : dstAdmission.map (·.1) = expectedKeys dstStepModes := by
  decide +kernel

/-- A PDU routed to the source handler is never refused by it as belonging to the other side; a
PDU routed to the destination handler is always refused by the source handler with one of the
library's protocol exceptions, leaving the public state unchanged — every step, mode, config. -/
theorem C20_src_routing_vs_admission :
    rowsOk srcAdmission (fun kind v =>
      if getPacketDestination kind = .source then v.1 != .InvalidPduForSourceHandler
      else v.1.isProtocolException && v.2) = true := by
  decide +kernel

theorem C20_dst_routing_vs_admission :
    rowsOk dstAdmission (fun kind v =>
      if getPacketDestination kind = .dest then v.1 != .InvalidPduForDestHandler
      else v.1.isProtocolException && v.2) = true := by
  decide +kernel

/-- No PDU of the space, in any step, makes a handler leak an internal error (table part of C10). -/
theorem C20_no_internal_error_in_tables :
    rowsOk srcAdmission (fun _ v => v.1 != .internal) = true ∧
    rowsOk dstAdmission (fun _ v => v.1 != .internal) = true := by
  decide +kernel

def admissionRefusals : List Verdict :=
  [.InvalidPduDirection, .InvalidPduForSourceHandler, .InvalidPduForDestHandler,
   .PduIgnoredForSource, .PduIgnoredForDest, .InvalidDestinationId, .InvalidSourceId,
   .InvalidTransactionSeqNum, .NoRemoteEntityCfgFound]

/-- Every refusal by the admission checks recorded in the tables left the public state unchanged
(table part of C10). -/
theorem C20_refusals_leave_state :
    rowsOk srcAdmission (fun _ v => !(admissionRefusals.contains v.1) || v.2) = true ∧
    rowsOk dstAdmission (fun _ v => !(admissionRefusals.contains v.1) || v.2) = true := by
  decide +kernel

/-! non-vacuity: the space has 576 keys; concrete rows -/
example : allKeys.length = 576 := by decide +kernel
example : srcVerdict .WAITING_FOR_EOF_ACK .ack ⟨.ackeof, .toSend, .ack, false, false, 2⟩ =
    some (.ok, false) := by decide +kernel
example : dstVerdict .RECEIVING_FILE_DATA .ack ⟨.nak, .toRecv, .ack, true, false, 4⟩ =
    some (.InvalidPduForDestHandler, true) := by decide +kernel

end Cfdp.Route.C20
