import CfdpVerif.Lemmas.Tracker
/-!
# C18 — lost-segment bookkeeping refines an exact interval set

Property theorems only (helper lemmas live in `Lemmas/Tracker.lean`).  Everything here is about
`Cfdp.Tracker` (the model of `LostSegmentTracker`, tied to the Python by `harness/corr_tracker.py`).
All statements are for every listing, every offset and every operation history: no bound.
-/
namespace Cfdp.Tracker.C18

open Cfdp.Tracker

/-- ascending order without empty ranges (and without overlap) is `WF`; spelled out pointwise. -/
theorem C18_wf_means_ascending_nonempty {t : T} (h : WF t) :
    (∀ p ∈ t, p.1 < p.2) ∧ List.Pairwise (fun p q : Seg => p.2 ≤ q.1) t := by
  constructor
  · intro p hp; exact (mem_ge_of_WFfrom h hp).2
  · suffices H : ∀ lo (t : T), WFfrom lo t → List.Pairwise (fun p q : Seg => p.2 ≤ q.1) t from H 0 t h
    intro lo t
    induction t generalizing lo with
    | nil => intro _; exact List.Pairwise.nil
    | cons p t ih =>
      intro ⟨h1, h2, h3⟩
      refine List.Pairwise.cons ?_ (ih _ h3)
      intro q hq
      exact (mem_ge_of_WFfrom h3 hq).1

/-- Adding a non-empty range disjoint from the tracked set: result well-formed, denotes the union. -/
theorem C18_add_refines {t : T} {a b : Nat} (h : WF t) (hab : a < b)
    (hdisj : ∀ x, a ≤ x → x < b → ¬ den t x) :
    WF (add t (a, b)) ∧ ∀ x, den (add t (a, b)) x ↔ (den t x ∨ (a ≤ x ∧ x < b)) :=
  add_spec h hab (Nat.zero_le _) hdisj

/-- Removing a non-empty range lying within one tracked range: reports `True`, stays well-formed,
denotes the set difference. -/
theorem C18_remove_within {t : T} {s e a b : Nat} (h : WF t) (hm : (s, e) ∈ t)
    (hsa : s ≤ a) (hab : a < b) (hbe : b ≤ e) :
    ∃ t', remove t a b = .ok true t' ∧ WF t' ∧ ∀ x, den t' x ↔ (den t x ∧ ¬ (a ≤ x ∧ x < b)) :=
  (remove_inside h hm hsa (by omega) hab).2 hbe

/-- Removing a range that touches no tracked byte: reports `False`, nothing changes. -/
theorem C18_remove_untouched {t : T} {a b : Nat} (h : WF t)
    (hdisj : ∀ x, a ≤ x → x < b → ¬ den t x) (hab : a < b) :
    remove t a b = .ok false t :=
  remove_untouched h (hdisj a (Nat.le_refl _) hab)

/-- Removing an empty range: reports `False`, nothing changes. -/
theorem C18_remove_empty (t : T) (a : Nat) : remove t a a = .ok false t := remove_empty t a

/-- A removal that starts inside a tracked range and ends beyond its end is refused with a value
error; `remove` is a pure function, so no new listing exists in that branch ("changes nothing"). -/
theorem C18_remove_straddle_refused {t : T} {s e a b : Nat} (h : WF t) (hm : (s, e) ∈ t)
    (hsa : s ≤ a) (hae : a < e) (heb : e < b) :
    remove t a b = .valueError :=
  (remove_inside h hm hsa hae (by omega)).1 heb

/-- The Boolean result says whether the denoted set changed (for the removals the property
admits: within one tracked range, or touching no tracked byte — the empty range included). -/
theorem C18_remove_reports_change {t t' : T} {a b : Nat} {c : Bool} (h : WF t)
    (hpre : (∃ s e, (s, e) ∈ t ∧ s ≤ a ∧ a < b ∧ b ≤ e) ∨
            (a ≤ b ∧ ∀ x, a ≤ x → x < b → ¬ den t x))
    (hr : remove t a b = .ok c t') :
    (c = true ↔ ∃ x, ¬ (den t' x ↔ den t x)) := by
  rcases hpre with ⟨s, e, hm, hsa, hab, hbe⟩ | ⟨hle, hdisj⟩
  · obtain ⟨t'', h1, _, h3⟩ := C18_remove_within h hm hsa hab hbe
    rw [h1] at hr
    injection hr with hc ht
    subst hc; subst ht
    refine ⟨fun _ => ⟨a, ?_⟩, fun _ => rfl⟩
    intro hiff
    have hda : den t a := ⟨(s, e), hm, hsa, by simp only; omega⟩
    have := (h3 a).1 (hiff.2 hda)
    exact this.2 ⟨Nat.le_refl _, hab⟩
  · have hres : remove t a b = .ok false t := by
      by_cases hab : a < b
      · exact C18_remove_untouched h hdisj hab
      · have : a = b := by omega
        subst this; exact remove_empty t a
    rw [hres] at hr
    injection hr with hc ht
    subst hc; subst ht
    exact ⟨fun h => by simp at h, fun ⟨x, hx⟩ => absurd Iff.rfl hx⟩

/-- Coalescing never changes the denoted set, keeps the listing ascending/non-empty and leaves no
two adjacent (touching) ranges. -/
theorem C18_coalesce {t : T} (h : WF t) :
    WF (coalesce t) ∧ Separated (coalesce t) ∧ ∀ x, den (coalesce t) x ↔ den t x :=
  coalesce_spec h

/-! ## Lift to every operation history -/

inductive Op where
  | add (a b : Nat)
  | remove (a b : Nat)
  | coalesce
  deriving Repr

/-- the precondition the property puts on each operation, evaluated in the current listing -/
def Pre (t : T) : Op → Prop
  | .add a b => a < b ∧ ∀ x, a ≤ x → x < b → ¬ den t x
  | .remove a b => (∃ s e, (s, e) ∈ t ∧ s ≤ a ∧ a < b ∧ b ≤ e) ∨
                   (a ≤ b ∧ ∀ x, a ≤ x → x < b → ¬ den t x)
  | .coalesce => True

/-- the model's step: `none` is the Python `ValueError` -/
def step (t : T) : Op → Option T
  | .add a b => some (Tracker.add t (a, b))
  | .remove a b => match Tracker.remove t a b with
      | .ok _ t' => some t'
      | .valueError => none
  | .coalesce => some (Tracker.coalesce t)

/-- the abstract set semantics of an operation -/
def specStep (S : Nat → Prop) : Op → (Nat → Prop)
  | .add a b => fun x => S x ∨ (a ≤ x ∧ x < b)
  | .remove a b => fun x => S x ∧ ¬ (a ≤ x ∧ x < b)
  | .coalesce => S

/-- histories whose every operation meets the precondition in the state it is applied to -/
inductive Admissible : T → List Op → Prop
  | nil (t : T) : Admissible t []
  | cons {t : T} {op : Op} {ops : List Op} :
      Pre t op → (∀ t', step t op = some t' → Admissible t' ops) → Admissible t (op :: ops)

def run : T → List Op → Option T
  | t, [] => some t
  | t, op :: ops => match step t op with
      | some t' => run t' ops
      | none => none

def specRun (S : Nat → Prop) : List Op → (Nat → Prop)
  | [] => S
  | op :: ops => specRun (specStep S op) ops

theorem step_refines {t : T} {op : Op} (h : WF t) (hp : Pre t op) :
    ∃ t', step t op = some t' ∧ WF t' ∧ ∀ x, den t' x ↔ specStep (den t) op x := by
  cases op with
  | add a b =>
    obtain ⟨h1, h2⟩ := C18_add_refines h hp.1 hp.2
    exact ⟨_, rfl, h1, h2⟩
  | remove a b =>
    rcases hp with ⟨s, e, hm, hsa, hab, hbe⟩ | ⟨hle, hdisj⟩
    · obtain ⟨t', h1, h2, h3⟩ := C18_remove_within h hm hsa hab hbe
      exact ⟨t', by simp [step, h1], h2, h3⟩
    · have hres : Tracker.remove t a b = .ok false t := by
        by_cases hab : a < b
        · exact C18_remove_untouched h hdisj hab
        · have : a = b := by omega
          subst this; exact remove_empty t a
      refine ⟨t, by simp [step, hres], h, ?_⟩
      intro x; simp only [specStep]
      constructor
      · intro hx; exact ⟨hx, fun hc => hdisj x hc.1 hc.2 hx⟩
      · intro hx; exact hx.1
  | coalesce =>
    obtain ⟨h1, _, h3⟩ := C18_coalesce h
    exact ⟨_, rfl, h1, h3⟩

theorem specRun_congr {S S' : Nat → Prop} (h : ∀ x, S x ↔ S' x) (ops : List Op) :
    ∀ x, specRun S ops x ↔ specRun S' ops x := by
  induction ops generalizing S S' with
  | nil => exact h
  | cons op ops ih =>
    apply ih
    intro x
    cases op <;> simp only [specStep, h]

/-- **C18 main theorem.**  From the empty tracker (or any well-formed one), after *any* history in
which each operation meets the property's precondition when it is applied — pre-conditions that
are checked against the running state, so the theorem also says no admissible operation can be
refused — the listing is ascending, free of empty ranges and overlaps, and denotes exactly the set
obtained by folding union / difference over the same history. -/
theorem C18_reachable_refines (ops : List Op) :
    ∀ t, WF t → Admissible t ops →
      ∃ t', run t ops = some t' ∧ WF t' ∧ ∀ x, den t' x ↔ specRun (den t) ops x := by
  induction ops with
  | nil => intro t h _; exact ⟨t, rfl, h, fun x => Iff.rfl⟩
  | cons op ops ih =>
    intro t h hadm
    cases hadm with
    | cons hp hrest =>
      obtain ⟨t1, hs, hwf1, hden1⟩ := step_refines h hp
      obtain ⟨t', hr, hwf', hden'⟩ := ih t1 hwf1 (hrest t1 hs)
      refine ⟨t', by simp [run, hs, hr], hwf', ?_⟩
      intro x
      rw [hden']
      exact specRun_congr hden1 ops x

/-- The initial tracker is well-formed and denotes the empty set. -/
theorem C18_init : WF ([] : T) ∧ ∀ x, ¬ den ([] : T) x := ⟨trivial, by simp⟩

/-! ## Non-vacuity: a concrete history that splits a range, removes the tail piece, adds a
neighbour and coalesces — it satisfies every hypothesis above and ends in a non-trivial state. -/

def demoOps : List Op := [.add 0 10, .add 20 30, .remove 3 6, .remove 6 10, .add 10 20, .coalesce]

example : run [] demoOps = some [(0, 3), (10, 30)] := by decide

example : Tracker.remove [(0, 5)] 3 7 = .valueError := by decide

example : Pre [(0, 10), (20, 30)] (.remove 3 6) :=
  Or.inl ⟨0, 10, by simp, by omega, by omega, by omega⟩

/-- the demo history is admissible (so the main theorem applies to it) -/
example : Admissible [] demoOps := by
  refine .cons ⟨by omega, by simp⟩ fun t1 h1 => ?_
  obtain rfl : t1 = [(0, 10)] := by simpa [step, Tracker.add] using h1.symm
  refine .cons ⟨by omega, ?_⟩ fun t2 h2 => ?_
  · intro x h1 h2; simp; omega
  obtain rfl : t2 = [(0, 10), (20, 30)] := by simpa [step, Tracker.add] using h2.symm
  refine .cons (Or.inl ⟨0, 10, by simp, by omega, by omega, by omega⟩) fun t3 h3 => ?_
  obtain rfl : t3 = [(0, 3), (6, 10), (20, 30)] := by
    have : step [(0, 10), (20, 30)] (.remove 3 6) = some [(0, 3), (6, 10), (20, 30)] := by decide
    rw [this] at h3; exact (Option.some.inj h3).symm
  refine .cons (Or.inl ⟨6, 10, by simp, by omega, by omega, by omega⟩) fun t4 h4 => ?_
  obtain rfl : t4 = [(0, 3), (20, 30)] := by
    have : step [(0, 3), (6, 10), (20, 30)] (.remove 6 10) = some [(0, 3), (20, 30)] := by decide
    rw [this] at h4; exact (Option.some.inj h4).symm
  refine .cons ⟨by omega, ?_⟩ fun t5 h5 => ?_
  · intro x h1 h2; simp; omega
  exact .cons trivial fun _ _ => .nil _

end Cfdp.Tracker.C18
