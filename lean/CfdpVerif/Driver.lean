import CfdpVerif.Model.Tracker
import CfdpVerif.Model.Checksum
import CfdpVerif.Model.Util
import CfdpVerif.DriverWorld
/-!
Line-protocol driver of the executable model.  One output line per input line.
Every component has its own prefix; the Python harness (`harness/`) sends the same lines to the
real code and diffs the canonical outputs.
-/
namespace Cfdp.Driver

open Cfdp

def showSegs (t : Tracker.T) : String :=
  "[" ++ ",".intercalate (t.map fun p => s!"({p.1},{p.2})") ++ "]"

structure St where
  trk : Tracker.T := []
  world : DriverWorld.DSt := {}
  fs : Fs := []

/-- tracker ops: `T new | T add a b | T rm a b | T co | T reset` -/
def stepTracker (s : St) (args : List String) : St × String :=
  match args with
  | ["new"] => ({ s with trk := [] }, "ok " ++ showSegs [])
  | ["reset"] => ({ s with trk := Tracker.reset s.trk }, "ok " ++ showSegs [])
  | ["add", a, b] =>
    match a.toNat?, b.toNat? with
    | some a, some b =>
      let t := Tracker.add s.trk (a, b)
      ({ s with trk := t }, "ok " ++ showSegs t)
    | _, _ => (s, "bad-op")
  | ["rm", a, b] =>
    match a.toNat?, b.toNat? with
    | some a, some b =>
      match Tracker.remove s.trk a b with
      | .ok c t => ({ s with trk := t }, s!"ret={c} " ++ showSegs t)
      | .valueError => (s, "exc ValueError " ++ showSegs s.trk)
    | _, _ => (s, "bad-op")
  | ["co"] =>
    let t := Tracker.coalesce s.trk
    ({ s with trk := t }, "ok " ++ showSegs t)
  | _ => (s, "bad-op")

def showCksErr : Checksum.Err → String
  | .valueError => "exc ValueError"
  | .checksumNotImplemented => "exc ChecksumNotImplemented"

/-- checksum ops: `K calc <type> <hex> <size> <seg>` | `K verify <ckshex> <type> <hex> <size> <seg>` -/
def stepChecksum (args : List String) : String :=
  match args with
  | ["calc", t, d, size, seg] =>
    match t.toNat?, Util.bytesOfHex d, size.toNat?, seg.toNat? with
    | some t, some d, some size, some seg =>
      match Checksum.calcChecksum (Checksum.CksType.ofNat t) d size seg with
      | .ok r => "ok " ++ Util.hexOfBytes r
      | .error e => showCksErr e
    | _, _, _, _ => "bad-op"
  | ["verify", c, t, d, size, seg] =>
    match Util.bytesOfHex c, t.toNat?, Util.bytesOfHex d, size.toNat?, seg.toNat? with
    | some c, some t, some d, some size, some seg =>
      match Checksum.verify c (Checksum.CksType.ofNat t) d size seg with
      | .ok r => s!"ok {r}"
      | .error e => showCksErr e
    | _, _, _, _, _ => "bad-op"
  | _ => "bad-op"

/-! filestore ops (reference model of C17): `F new | create p | delete p | rename a b | replace a b |
mkdir p | rmdir p 0|1 | trunc p | write p hex off | read p off len|- | size p | exists p | isdir p` -/
def showFsErr : FsErr → String
  | .fileNotFound => "exc FileNotFoundError" | .permission => "exc PermissionError"
  | .isADirectory => "exc IsADirectoryError" | .notADirectory => "exc NotADirectoryError"
  | .valueError => "exc ValueError" | .checksumNotImplemented => "exc ChecksumNotImplemented"

def stepFs (fs : Fs) (args : List String) : Fs × String :=
  let snap (f : Fs) := " | " ++ DriverWorld.showFs f
  match args with
  | ["new"] => ([], "ok" ++ snap [])
  | ["create", p] => let r := Fs.createFile fs p; (r.2, s!"code={r.1}" ++ snap r.2)
  | ["delete", p] => let r := Fs.deleteFile fs p; (r.2, s!"code={r.1}" ++ snap r.2)
  | ["rename", a, b] =>
    match Fs.renameFileE fs a b with
    | .ok r => (r.2, s!"code={r.1}" ++ snap r.2)
    | .error e => (fs, showFsErr e ++ snap fs)
  | ["replace", a, b] => let r := Fs.replaceFile fs a b; (r.2, s!"code={r.1}" ++ snap r.2)
  | ["mkdir", p] =>
    match Fs.createDirectoryE fs p with
    | .ok r => (r.2, s!"code={r.1}" ++ snap r.2)
    | .error e => (fs, showFsErr e ++ snap fs)
  | ["rmdir", p, r] => let x := Fs.removeDirectory fs p (r == "1"); (x.2, s!"code={x.1}" ++ snap x.2)
  | ["trunc", p] =>
    match Fs.truncateFile fs p with
    | .ok f => (f, "ok" ++ snap f)
    | .error e => (fs, showFsErr e ++ snap fs)
  | ["write", p, hex, off] =>
    match Util.bytesOfHex hex, off.toNat? with
    | some d, some o =>
      match Fs.writeData fs p d o with
      | .ok f => (f, "ok" ++ snap f)
      | .error e => (fs, showFsErr e ++ snap fs)
    | _, _ => (fs, "bad-op")
  | ["read", p, off, len] =>
    match off.toNat? with
    | some o =>
      match Fs.readData fs p o (if len == "-" then none else len.toNat?) with
      | .ok d => (fs, "data=" ++ Util.hexOrDash d ++ snap fs)
      | .error e => (fs, showFsErr e ++ snap fs)
    | none => (fs, "bad-op")
  | ["size", p] =>
    match Fs.fileSize fs p with
    | .ok n => (fs, s!"size={n}" ++ snap fs)
    | .error e => (fs, showFsErr e ++ snap fs)
  | ["exists", p] => (fs, s!"ret={Fs.exists' fs p}" ++ snap fs)
  | ["isdir", p] => (fs, s!"ret={Fs.isDir fs p}" ++ snap fs)
  | _ => (fs, "bad-op")

def step (s : St) (line : String) : St × String :=
  match (line.trimAscii.toString.splitOn " ").filter (· ≠ "") with
  | "T" :: rest => stepTracker s rest
  | "K" :: rest => (s, stepChecksum rest)
  | "F" :: rest =>
    let (f, o) := stepFs s.fs rest
    ({ s with fs := f }, o)
  | "W" :: rest =>
    let (d, o) := DriverWorld.stepLine s.world rest
    ({ s with world := d }, o)
  | [] => (s, "")
  | _ => (s, "bad-op")

partial def loop (h : IO.FS.Stream) (out : IO.FS.Stream) (s : St) : IO Unit := do
  let line ← h.getLine
  if line.isEmpty then
    out.flush
    return ()
  let (s', o) := step s line
  out.putStrLn o
  loop h out s'

def main (_args : List String) : IO Unit := do
  loop (← IO.getStdin) (← IO.getStdout) {}

end Cfdp.Driver
