import CfdpVerif.Driver

def main (args : List String) : IO Unit := Cfdp.Driver.main args
