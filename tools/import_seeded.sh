#!/bin/bash
# usage: tools/import_seeded.sh <worktree> <seeded-id>   — confirm a sub-agent's change and store it under seeded/<id>
wt="$1"; id="$2"; out=/verif/seeded/$id

mkdir -p "$out"
cp "$wt/seeded_out/patch.diff" "$wt/seeded_out/demo.py" "$wt/seeded_out/meta.json" "$out/"
cd "$wt"

git checkout -q -- . ; git status --short | grep -v seeded_out || true
echo "-- demo on clean tree:"; (cd seeded_out && PYTHONPATH=$wt/src timeout 300 /venv/bin/python demo.py >/tmp/demo_clean.txt 2>&1; echo "rc=$?"; tail -2 /tmp/demo_clean.txt | cut -c1-300)
git apply "$out/patch.diff"
echo "-- demo with change:"; (cd seeded_out && PYTHONPATH=$wt/src timeout 300 /venv/bin/python demo.py >/tmp/demo_mut.txt 2>&1; echo "rc=$?"; tail -2 /tmp/demo_mut.txt | cut -c1-300)
echo "-- tests with change:"; PYTHONPATH=$wt/src timeout 1800 /venv/bin/python -m pytest -q -p no:cacheprovider tests 2>&1 | tail -2
git checkout -q -- .

