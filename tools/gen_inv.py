#!/usr/bin/env python3
"""Generates Lean files proving that a state predicate is preserved by EVERY method of a handler
model (function by function, with the `Preserves` combinators of Lemmas/Monad.lean).

usage: tools/gen_inv.py   (rewrites lean/CfdpVerif/Lemmas/Inv*.lean; the outputs are committed)

An invariant is described by: name, Lean definition (a predicate `Env → St → Prop`), the closing
tactic for the obligations at `modify` sites, and optional overrides of the base lemma of a
primitive (e.g. `emitInd`, which is only allowed for enabled indications).
"""
import re
from pathlib import Path

import os
OUT = Path(os.environ.get("GEN_OUT") or (Path(__file__).resolve().parent.parent / "lean" / "CfdpVerif" / "Lemmas"))

# (lemma name, binder string, term, unfold list, callee lemmas, extra) ; `r`/`hr` = nested call
DEST = [
    ("addPacket", "(p : Pdu)", "addPacket p", ["addPacket"], []),
    ("addPackets", "(p : List Pdu)", "addPackets p", ["addPackets"], []),
    ("modP", "(f : Params → Params)", "modP f", ["modP"], []),
    ("emitInd", "(i : Ind)", "emitInd i", ["emitInd"], []),
    ("getP", "", "getP", ["getP"], []),
    ("transmissionMode", "", "transmissionMode", ["transmissionMode"], []),
    ("assertThat", "(b : Bool)", "assertThat b", ["assertThat"], []),
    ("resetInternal", "", "resetInternal false", ["resetInternal"], []),
    ("noticeOfCancellation", "(c : Nat)", "noticeOfCancellation c", ["noticeOfCancellation", "abandonTransaction"],
     ["resetInternal"]),
    ("declareFault", "(c : Nat)", "declareFault c", ["declareFault", "abandonTransaction"],
     ["resetInternal", "noticeOfCancellation"]),
    ("trigger", "(c : Nat) (e : EntityId)", "triggerNoticeOfCompletionCanceled c e",
     ["triggerNoticeOfCompletionCanceled"], ["modP"]),
    ("markComplete", "", "markComplete", ["markComplete"], ["modP"]),
    ("checksumVerify", "", "checksumVerify", ["checksumVerify"], ["markComplete", "declareFault"]),
    ("prepareEofAckPacket", "", "prepareEofAckPacket", ["prepareEofAckPacket"], ["getP", "addPacket"]),
    ("fileTransferCompleteTransition", "", "fileTransferCompleteTransition", ["fileTransferCompleteTransition"],
     ["transmissionMode", "prepareEofAckPacket"]),
    ("startCheckLimitHandling", "", "startCheckLimitHandling env", ["startCheckLimitHandling"],
     ["getP", "assertThat", "modP"]),
    ("initVfsHandling", "(b : String)", "initVfsHandling b", ["initVfsHandling"], ["modP", "declareFault"]),
    ("handleMetadataPacket", "(h : Hdr) (cl : Bool) (c sz : Nat) (sn dn : Option String) (m : Option (List Msg))",
     "handleMetadataPacket h cl c sz sn dn m", ["handleMetadataPacket"],
     ["modP", "getP", "initVfsHandling", "emitInd:md"]),
    ("commonFirstPacketHandler", "(h : Hdr)", "commonFirstPacketHandler env h", ["commonFirstPacketHandler"],
     ["modP"]),
    ("startTransaction", "(h : Hdr) (cl : Bool) (c sz : Nat) (sn dn : Option String) (m : Option (List Msg))",
     "startTransaction env h cl c sz sn dn m", ["startTransaction"],
     ["modP", "commonFirstPacketHandler", "handleMetadataPacket"]),
    ("commonFirstNotMd", "(h : Hdr)", "commonFirstPacketNotMetadataPduHandler env h",
     ["commonFirstPacketNotMetadataPduHandler"], ["modP", "commonFirstPacketHandler"]),
    ("handleFdWithoutMd", "(f : Bool) (o : Nat) (d : List UInt8)", "handleFdWithoutPreviousMetadata f o d",
     ["handleFdWithoutPreviousMetadata"], ["modP", "getP", "addPacket"]),
    ("handleEofWithoutMd", "(cc : Nat) (c : List UInt8) (sz : Nat)", "handleEofWithoutPreviousMetadata env cc c sz",
     ["handleEofWithoutPreviousMetadata"], ["modP", "getP", "emitInd:eofrecv", "trigger", "prepareEofAckPacket"]),
    ("lostSegmentHandling", "(o l : Nat)", "lostSegmentHandling o l", ["lostSegmentHandling"],
     ["modP", "getP", "addPacket"]),
    ("vfsWriteData", "(n : String) (d : List UInt8) (o : Nat)", "vfsWriteData n d o", ["vfsWriteData"], []),
    ("fdIndication", "(o l : Nat)", "fdIndication env o l", ["fdIndication"], ["getP", "emitInd:segrecv"]),
    ("fdLostSegments", "(o l : Nat)", "fdLostSegments o l", ["fdLostSegments"],
     ["transmissionMode", "lostSegmentHandling"]),
    ("fdAfterWrite", "(o : Nat) (d : List UInt8) (r : Option FsErr)", "fdAfterWrite o d r", ["fdAfterWrite"],
     ["getP", "modP", "declareFault"]),
    ("fdWrite", "(o : Nat) (d : List UInt8)", "fdWrite o d", ["fdWrite"], ["getP", "vfsWriteData"]),
    ("handleFdPdu", "(o : Nat) (d : List UInt8)", "handleFdPdu env o d", ["handleFdPdu"],
     ["fdIndication", "fdLostSegments", "fdWrite", "fdAfterWrite"]),
    ("noErrorEofVerify", "", "noErrorEofVerify env", ["noErrorEofVerify"],
     ["transmissionMode", "checksumVerify", "startCheckLimitHandling"]),
    ("handleNoErrorEof", "", "handleNoErrorEof env", ["handleNoErrorEof"],
     ["getP", "declareFault", "noErrorEofVerify", "transmissionMode", "modP"]),
    ("handleEofPdu", "(c : Nat) (k : List UInt8) (sz : Nat)", "handleEofPdu env c k sz", ["handleEofPdu"],
     ["modP", "getP", "emitInd:eofrecv", "handleNoErrorEof", "fileTransferCompleteTransition", "trigger"]),
    ("handleFdOrEofPdu", "(p : Pdu)", "handleFdOrEofPdu env p", ["handleFdOrEofPdu"], ["handleFdPdu", "handleEofPdu"]),
    ("resetNak", "", "resetNakActivityParameters env", ["resetNakActivityParameters"], ["getP", "modP"]),
    ("handleWaitingMd", "(p : Option Pdu)", "handleWaitingForMissingMetadata env p",
     ["handleWaitingForMissingMetadata"],
     ["getP", "handleFdWithoutMd", "handleMetadataPacket", "resetNak", "handleEofWithoutMd"]),
    ("deferred", "", "deferredLostSegmentHandling env", ["deferredLostSegmentHandling"],
     ["getP", "modP", "checksumVerify", "addPackets", "declareFault"]),
    ("startDeferred", "", "startDeferredLostSegmentHandling env", ["startDeferredLostSegmentHandling"],
     ["getP", "modP", "deferred"]),
    ("fsmAdvancement", "", "fsmAdvancementAfterPacketsWereSent env", ["fsmAdvancementAfterPacketsWereSent"],
     ["startDeferred", "checksumVerify"]),
    ("checkLimitHandling", "", "checkLimitHandling env", ["checkLimitHandling"],
     ["getP", "modP", "checksumVerify", "fileTransferCompleteTransition", "declareFault"]),
    ("noticeOfCompletion", "", "noticeOfCompletion env", ["noticeOfCompletion"], ["getP", "emitInd:finished"]),
    ("handleTransferCompletion", "", "handleTransferCompletion env", ["handleTransferCompletion"],
     ["noticeOfCompletion", "transmissionMode", "getP", "resetInternal"]),
    ("prepareFinishedPdu", "", "prepareFinishedPdu", ["prepareFinishedPdu"], ["addPacket"]),
    ("startPositiveAck", "", "startPositiveAckProcedure env", ["startPositiveAckProcedure"], ["getP", "modP"]),
    ("handleFinishedPduSent", "", "handleFinishedPduSent env", ["handleFinishedPduSent"],
     ["transmissionMode", "startPositiveAck", "resetInternal"]),
    ("resendFinished", "", "resendFinished env", ["resendFinished"], ["getP", "modP", "prepareFinishedPdu"]),
    ("handlePositiveAck", "R", "handlePositiveAckProcedures env r", ["handlePositiveAckProcedures"],
     ["getP", "declareFault", "resendFinished", "HR"]),
    ("handleWaitingFinAck", "RP", "handleWaitingForFinishedAck env p r", ["handleWaitingForFinishedAck"],
     ["resetInternal", "prepareEofAckPacket", "handlePositiveAck:R"]),
    ("fsmFromWaitingForFinishedAck", "RP", "fsmFromWaitingForFinishedAck env p r", ["fsmFromWaitingForFinishedAck"],
     ["handleWaitingFinAck:R"]),
    ("fsmFromSendingFinishedPdu", "RP", "fsmFromSendingFinishedPdu env p r", ["fsmFromSendingFinishedPdu"],
     ["prepareFinishedPdu", "handleFinishedPduSent", "fsmFromWaitingForFinishedAck:R"]),
    ("fsmFromTransferCompletion", "RP", "fsmFromTransferCompletion env p r", ["fsmFromTransferCompletion"],
     ["handleTransferCompletion", "fsmFromSendingFinishedPdu:R"]),
    ("fsmFromWaitingForMissingData", "RP", "fsmFromWaitingForMissingData env p r", ["fsmFromWaitingForMissingData"],
     ["handleFdPdu", "getP", "resetNak", "prepareEofAckPacket", "deferred", "fsmFromTransferCompletion:R"]),
    ("fsmFromCheckLimit", "RP", "fsmFromCheckLimit env p r", ["fsmFromCheckLimit"],
     ["checkLimitHandling", "fsmFromWaitingForMissingData:R"]),
    ("fsmFromWaitingForMetadata", "RP", "fsmFromWaitingForMetadata env p r", ["fsmFromWaitingForMetadata"],
     ["handleWaitingMd", "deferred", "fsmFromCheckLimit:R"]),
    ("fsmFromReceiving", "RP", "fsmFromReceiving env p r", ["fsmFromReceiving"],
     ["handleFdOrEofPdu", "fsmFromWaitingForMetadata:R"]),
    ("nonIdleFsm", "RP", "nonIdleFsm env p r", ["nonIdleFsm"], ["fsmAdvancement", "fsmFromReceiving:R"]),
    ("checkInserted", "(p : Pdu)", "checkInsertedPacket env p", None, []),
    ("idleFsm", "(p : Option Pdu)", "idleFsm env p", ["idleFsm"],
     ["commonFirstNotMd", "handleFdWithoutMd", "handleEofWithoutMd", "startTransaction"]),
    ("stateMachineWith", "RP", "stateMachineWith env p r", ["stateMachineWith"],
     ["checkInserted", "idleFsm", "nonIdleFsm:R"]),
    ("getNextPacket", "", "getNextPacket", ["getNextPacket"], []),
    ("cancelRequest", "(t : Tid)", "cancelRequest env t", ["cancelRequest"], ["trigger"]),
]

SOURCE = [
    ("modP", "(f : Params → Params)", "modP f", ["modP"], []),
    ("getP", "", "getP", ["getP"], []),
    ("transmissionMode", "", "transmissionMode", ["transmissionMode"], []),
    ("addPacket", "(p : Pdu)", "addPacket p", ["addPacket"], []),
    ("emitInd", "(i : Ind)", "emitInd i", ["emitInd"], []),
    ("resetInternal", "(b : Bool)", "resetInternal b", ["resetInternal"], []),
    ("checksumCalculation", "(n : Nat)", "checksumCalculation n", ["checksumCalculation"], []),
    ("prepareEofPdu", "(c : List UInt8)", "prepareEofPdu env c", ["prepareEofPdu"],
     ["getP", "addPacket", "emitInd:eofsent"]),
    ("startPositiveAck", "", "startPositiveAckProcedure env", ["startPositiveAckProcedure"], ["getP", "modP"]),
    ("handleEofSent", "(b : Bool)", "handleEofSent env b", ["handleEofSent"],
     ["transmissionMode", "startPositiveAck", "resetInternal", "getP", "modP"]),
    ("noticeOfCancellation", "(c : Nat)", "noticeOfCancellation env c", ["noticeOfCancellation", "abandonTransaction"],
     ["getP", "resetInternal", "modP", "checksumCalculation", "prepareEofPdu", "handleEofSent"]),
    ("declareFault", "(c : Nat)", "declareFault env c", ["declareFault", "abandonTransaction"],
     ["noticeOfCancellation", "resetInternal"]),
    ("prepareMetadataPdu", "", "prepareMetadataPdu", ["prepareMetadataPdu"], ["addPacket"]),
    ("prepareFileDataPdu", "(o l : Nat)", "prepareFileDataPdu o l", ["prepareFileDataPdu"], ["addPacket"]),
    ("prepareProgressing", "", "prepareProgressingFileDataPdu", ["prepareProgressingFileDataPdu"],
     ["getP", "prepareFileDataPdu", "modP"]),
    ("segmentChunks", "IND", "segmentChunks seg fuel cur missing", None, []),
    ("handleSegmentReq", "(q : Nat × Nat)", "handleSegmentReq q", ["handleSegmentReq"],
     ["prepareMetadataPdu", "getP", "segmentChunks"]),
    ("handleSegmentReqs", "IND2", "handleSegmentReqs l", None, []),
    ("handleRetransmission", "(p : Option Pdu)", "handleRetransmission p", ["handleRetransmission"],
     ["handleSegmentReqs"]),
    ("handlePositiveAck", "", "handlePositiveAckProcedures env", ["handlePositiveAckProcedures"],
     ["getP", "declareFault", "modP", "checksumCalculation", "prepareEofPdu"]),
    ("handleWaitingForAck", "(p : Option Pdu)", "handleWaitingForAck env p", ["handleWaitingForAck"],
     ["handleRetransmission", "handlePositiveAck"]),
    ("handleWaitForFinish", "(p : Option Pdu)", "handleWaitForFinish env p", ["handleWaitForFinish"],
     ["transmissionMode", "handleRetransmission", "modP", "getP", "addPacket", "declareFault"]),
    ("noticeOfCompletion", "", "noticeOfCompletion env", ["noticeOfCompletion"],
     ["getP", "modP", "emitInd:finished", "resetInternal"]),
    ("sendingFileDataFsm", "(p : Option Pdu)", "sendingFileDataFsm p", ["sendingFileDataFsm"],
     ["transmissionMode", "handleRetransmission", "getP", "prepareProgressing", "modP"]),
    ("transactionStart", "", "transactionStart env", ["transactionStart"], ["modP", "getP", "emitInd:tx"]),
    ("fsmAdvancement", "", "fsmAdvancementAfterPacketsWereSent", ["fsmAdvancementAfterPacketsWereSent"], []),
    ("fsmFromNoticeOfCompletion", "", "fsmFromNoticeOfCompletion env", ["fsmFromNoticeOfCompletion"],
     ["noticeOfCompletion"]),
    ("fsmFromWaitingForFinished", "(p : Option Pdu)", "fsmFromWaitingForFinished env p",
     ["fsmFromWaitingForFinished"], ["handleWaitForFinish", "fsmFromNoticeOfCompletion"]),
    ("fsmFromWaitingForEofAck", "(p : Option Pdu)", "fsmFromWaitingForEofAck env p", ["fsmFromWaitingForEofAck"],
     ["handleWaitingForAck", "fsmFromWaitingForFinished"]),
    ("fsmFromSendingEof", "(p : Option Pdu)", "fsmFromSendingEof env p", ["fsmFromSendingEof"],
     ["getP", "checksumCalculation", "prepareEofPdu", "handleEofSent", "fsmFromWaitingForEofAck"]),
    ("fsmFromSendingFileData", "(p : Option Pdu)", "fsmFromSendingFileData env p", ["fsmFromSendingFileData"],
     ["sendingFileDataFsm", "fsmFromSendingEof"]),
    ("fsmNonIdle", "(p : Option Pdu)", "fsmNonIdle env p", ["fsmNonIdle"],
     ["fsmAdvancement", "transactionStart", "prepareMetadataPdu", "fsmFromSendingFileData"]),
    ("checkInserted", "(p : Pdu)", "checkInsertedPacket env p", None, []),
    ("stateMachine", "(p : Option Pdu)", "stateMachine env p", ["stateMachine"], ["checkInserted", "fsmNonIdle"]),
    ("putRequest", "(q : PutReq)", "putRequest env q", ["putRequest"], ["modP"]),
    ("cancelRequest", "(t : Tid)", "cancelRequest env t", ["cancelRequest"], ["noticeOfCancellation"]),
    ("getNextPacket", "", "getNextPacket", ["getNextPacket"], []),
]


def gen(side: str, mod: str, inv: str, sfx: str, inv_def: str, close: str, overrides: dict[str, str],
        callsite: dict[str, str], doc: str, extra_imports: str = "", only: list[str] | None = None,
        inline: tuple = (), params: str = "") -> str:
    """only: restrict to these lemma names (in table order); inline: primitives that are unfolded at
    their call sites instead of being covered by a lemma (e.g. `modP`, whose argument decides whether
    the invariant survives); params: extra binders every lemma takes (after `env`)"""
    table = DEST if side == "Dest" else SOURCE
    if only is not None:
        table = [t for t in table if t[0] in only]
    if inline:
        table = [(n, b, t, u, [c for c in cs if c.partition(":")[0] not in inline]) for n, b, t, u, cs in table
                 if n not in inline]
    L = [f"import CfdpVerif.Model.{side}", "import CfdpVerif.Lemmas.Monad", extra_imports,
         "/-!", "GENERATED by tools/gen_inv.py — do not edit.", "", doc, "-/",
         "set_option linter.unusedSimpArgs false", "set_option linter.unusedVariables false", "",
         f"namespace Cfdp.{side}.{mod}", f"open Cfdp Cfdp.{side}", "", inv_def, "",
         f"local macro \"close_inv\" : tactic => `(tactic| all_goals (try ({close})))", ""]

    pnames = re.findall(r"[({](\w+)\s*:", params)
    pargs = "".join(" " + x for x in pnames)
    invp = f"{inv} env{pargs}"

    def ref(c: str) -> str:
        if c == "HR":
            return "hr"
        name, _, tag = c.partition(":")
        if tag == "R":
            return f"{name}_{sfx} env{pargs} r hr"
        key = f"{name}:{tag}" if tag else name
        if key in callsite:
            return callsite[key]
        return f"{name}_{sfx} env{pargs}"

    for name, binders, term, unfold, callees in table:
        if name in overrides:
            L.append(overrides[name])
            L.append("")
            continue
        if binders == "R":
            b = f"(env : Env) {params} (r : DM Unit) (hr : Preserves ({invp}) r)"
        elif binders == "RP":
            b = f"(env : Env) {params} (r : DM Unit) (hr : Preserves ({invp}) r) (p : Option Pdu)"
        elif binders == "IND":
            L.append(f"theorem segmentChunks_{sfx} (env : Env) {params} (seg : Nat) : ∀ (fuel cur missing : Nat), "
                     f"Preserves ({invp}) (segmentChunks seg fuel cur missing) := by\n"
                     f"  intro fuel\n  induction fuel with\n"
                     f"  | zero => intro cur missing; unfold segmentChunks; preserves_with []\n"
                     f"  | succ fuel ih =>\n    intro cur missing\n    unfold segmentChunks\n"
                     f"    preserves_with [{ref('prepareFileDataPdu')}, ih]\n")
            continue
        elif binders == "IND2":
            L.append(f"theorem handleSegmentReqs_{sfx} (env : Env) {params} : ∀ (l : List (Nat × Nat)), "
                     f"Preserves ({invp}) (handleSegmentReqs l) := by\n"
                     f"  intro l\n  induction l with\n"
                     f"  | nil => unfold handleSegmentReqs; preserves_with []\n"
                     f"  | cons q l ih =>\n    unfold handleSegmentReqs\n"
                     f"    preserves_with [{ref('handleSegmentReq')}, ih]\n")
            continue
        else:
            b = f"(env : Env) {params} {binders}".rstrip()
        head = f"theorem {name}_{sfx} {b} :\n    Preserves ({invp}) ({term}) := by"
        if unfold is None:      # read-only admission check
            un = ("checkInsertedPacket handleFirstPacketNotMetadataPdu transmissionMode" if side == "Dest"
                  else "checkInsertedPacket")
            L.append(f"{head}\n  apply Preserves.of_readOnly\n  unfold {un}\n  read_only\n")
            continue
        cl = ", ".join(ref(c) for c in callees)
        tri = "".join(f"  try unfold {x}\n" for x in inline)
        L.append(f"{head}\n  unfold {' '.join(unfold)}\n{tri}  preserves_with [{cl}]\n  close_inv\n")
    names = {t[0] for t in table}
    if side == "Dest" and "stateMachineWith" in names:
        L.append(f"theorem stateMachine_{sfx} (env : Env) {params} (p : Option Pdu) :\n"
                 f"    Preserves ({invp}) (stateMachine env p) := by\n  unfold stateMachine\n"
                 f"  apply stateMachineWith_{sfx}\n  apply stateMachineWith_{sfx}\n"
                 f"  apply stateMachineWith_{sfx}\n  exact Preserves.throw _\n")
        L.append(f"theorem reset_{sfx} (env : Env) {params} : Preserves ({invp}) reset := resetInternal_{sfx} env{pargs}\n")
    elif side == "Source" and "resetInternal" in names:
        L.append(f"theorem reset_{sfx} (env : Env) {params} : Preserves ({invp}) reset := resetInternal_{sfx} env{pargs} true\n")
    L.append(f"end Cfdp.{side}.{mod}")
    return "\n".join(L) + "\n"


ALLOWED_DEF = '''/-- an indication the configuration permits (Metadata-Recv and Transaction have no switch) -/
def Allowed (cfg : LocalCfg) : Ind → Prop
  | .segRecv .. => cfg.indSegRecv = true
  | .eofRecv _ => cfg.indEofRecv = true
  | .finished .. => cfg.indFinished = true
  | .eofSent _ => cfg.indEofSent = true
  | .tx .. => True
  | .mdRecv .. => True

/-- every indication delivered so far was enabled -/
def IndsOk (env : Env) (s : %s) : Prop := ∀ i ∈ s.inds, Allowed env.cfg i
'''

EMIT_OVERRIDE = '''theorem emitInd_i (env : Env) (i : Ind) (h : Allowed env.cfg i) :
    Preserves (IndsOk env) (emitInd i) := by
  unfold emitInd
  refine Preserves.modify (fun s hs => ?_)
  intro j hj
  simp at hj
  rcases hj with hj | hj
  · exact hs j hj
  · subst hj; exact h'''


def main():
    files = {}
    files["InvDestQueue.lean"] = gen(
        "Dest", "Queue", "QInv", "q",
        "/-- the packets-ready counter is the queue length -/\n"
        "def QInv (_ : Env) (s : DestSt) : Prop := s.numReady = s.queue.length",
        "simp_all [QInv]; try omega", {}, {},
        "Destination handler: `numReady = queue.length` is preserved by every method.")
    cs = {"emitInd:md": "emitInd_i env _ (by simp [Allowed])",
          "emitInd:tx": "emitInd_i env _ (by simp [Allowed])",
          "emitInd:eofrecv": "emitInd_i env _ (by simp_all [Allowed])",
          "emitInd:segrecv": "emitInd_i env _ (by simp_all [Allowed])",
          "emitInd:finished": "emitInd_i env _ (by simp_all [Allowed])",
          "emitInd:eofsent": "emitInd_i env _ (by simp_all [Allowed])"}
    files["InvDestInds.lean"] = gen(
        "Dest", "Inds", "IndsOk", "i", ALLOWED_DEF % "DestSt", "simp_all [IndsOk]", {"emitInd": EMIT_OVERRIDE}, cs,
        "Destination handler: every indication in `inds` is one the indication configuration enables\n"
        "(C15 gating) — preserved by every method, hence by every call sequence.")
    files["InvSourceInds.lean"] = gen(
        "Source", "Inds", "IndsOk", "i", ALLOWED_DEF % "SrcSt", "simp_all [IndsOk]", {"emitInd": EMIT_OVERRIDE}, cs,
        "Source handler: every indication in `inds` is one the indication configuration enables (C15 gating).")
    frame_only = ["addPacket", "addPackets", "modP", "emitInd", "getP", "transmissionMode", "assertThat",
                  "resetInternal", "noticeOfCancellation", "declareFault", "trigger", "markComplete",
                  "checksumVerify", "prepareEofAckPacket", "fileTransferCompleteTransition",
                  "startCheckLimitHandling", "commonFirstPacketHandler", "commonFirstNotMd", "handleFdWithoutMd",
                  "handleEofWithoutMd", "lostSegmentHandling", "fdIndication", "fdLostSegments", "fdAfterWrite",
                  "noErrorEofVerify", "handleNoErrorEof",
                  "handleEofPdu", "resetNak", "deferred", "startDeferred", "fsmAdvancement",
                  "checkLimitHandling", "prepareFinishedPdu", "startPositiveAck", "handleFinishedPduSent",
                  "resendFinished", "checkInserted", "getNextPacket", "cancelRequest"]
    files["InvDestFsFrame.lean"] = gen(
        "Dest", "FsFrame", "FsEq", "f",
        "/-- the filestore is (still) `F` -/\n"
        "def FsEq (_ : Env) (F : Fs) (s : DestSt) : Prop := s.fs = F",
        "simp_all [FsEq]", {}, {},
        "Destination handler: the methods listed here never touch the filestore (frame lemmas for C05/C16):\n"
        "everything except `_init_vfs_handling`, `write_data` in `_handle_fd_pdu` and the deletion in\n"
        "`_notice_of_completion` (and their callers).", only=frame_only, params="(F : Fs)")
    nc_only = ["addPacket", "addPackets", "emitInd", "getP", "transmissionMode", "assertThat",
               "resetInternal", "noticeOfCancellation", "declareFault", "trigger",
               "prepareEofAckPacket", "fileTransferCompleteTransition",
               "startCheckLimitHandling", "commonFirstPacketHandler", "commonFirstNotMd", "handleFdWithoutMd",
               "handleEofWithoutMd", "lostSegmentHandling", "fdIndication", "fdLostSegments", "fdAfterWrite",
               "vfsWriteData", "fdWrite", "handleFdPdu", "resetNak", "prepareFinishedPdu", "startPositiveAck",
               "handleFinishedPduSent", "resendFinished", "checkInserted", "getNextPacket", "cancelRequest",
               "noticeOfCompletion", "handleTransferCompletion"]
    files["InvDestNotComplete.lean"] = gen(
        "Dest", "NotComplete", "NotComplete", "n",
        "/-- the delivery code is not (yet) Data-complete -/\n"
        "def NotComplete (_ : Env) (s : DestSt) : Prop := s.p.fin.deliv ≠ dcComplete",
        "simp_all [NotComplete, dcComplete, dcIncomplete]", {}, {},
        "Destination handler: none of the methods listed here can turn the delivery code into Data-complete\n"
        "(C01): that is done only by a successful `_checksum_verify` (and for metadata-only transfers by\n"
        "`_handle_metadata_packet`).", only=nc_only, inline=("modP",))
    files["InvSourceFsFrame.lean"] = gen(
        "Source", "FsFrame", "FsEq", "f",
        "/-- the filestore is (still) `F` -/\n"
        "def FsEq (_ : Env) (F : Fs) (s : SrcSt) : Prop := s.fs = F",
        "simp_all [FsEq]", {}, {},
        "Source handler: NO method changes the filestore (C16): the sender only reads\n"
        "(`file_exists`, `file_size`, `read_data`, `calculate_checksum`).", params="(F : Fs)")

    FLTS_DEF = '''/-- the callback kind is the handler code the table `T` has for the condition; or it is an abandon
callback (a fault declared while the cancellation exchange is in progress abandons, whatever the
table says: `C14_*_fault_in_cancel_exchange` state the exact condition) -/
def Consistent (T : List (Nat × Nat)) (cb : FaultCb) : Prop :=
  T.lookup cb.cond = some cb.kind ∨ cb.kind = fhAbandon

/-- the table is `T` and every fault callback delivered so far is consistent with it -/
def FltsOk (_ : Env) (T : List (Nat × Nat)) (s : %s) : Prop :=
  s.faults = T ∧ ∀ cb ∈ s.flts, Consistent T cb
'''
    DF_DEST = '''open Std.Do in
set_option mvcgen.warning false in
theorem declareFault_c (env : Env) (T : List (Nat × Nat)) (c : Nat) :
    Preserves (FltsOk env T) (declareFault c) := by
  apply preserves_of_triple
  mvcgen [declareFault, noticeOfCancellation, abandonTransaction, resetInternal]
  all_goals (simp +zetaDelta only [FltsOk, Consistent, List.mem_append, List.mem_singleton] at *; grind)'''
    DF_SRC = '''open Std.Do in
set_option mvcgen.warning false in
theorem declareFault_c (env : Env) (T : List (Nat × Nat)) (c : Nat) :
    Preserves (FltsOk env T) (declareFault env c) := by
  apply preserves_of_triple
  have h1 := triple_of_preserves (noticeOfCancellation_c env T c)
  mvcgen [declareFault, abandonTransaction, resetInternal, h1]
  all_goals (simp +zetaDelta only [FltsOk, Consistent, List.mem_append, List.mem_singleton] at *; grind)'''
    close_f = "first | (simp_all [FltsOk, Consistent]; done) | (simp_all [FltsOk, Consistent]; grind)"
    files["InvDestFaults.lean"] = gen(
        "Dest", "Faults", "FltsOk", "c", FLTS_DEF % "DestSt", close_f, {"declareFault": DF_DEST}, {},
        "Destination handler: every fault callback ever delivered is of the kind the fault handler table\n"
        "configures for its condition (or the abandon of the cancellation-exchange rule) — preserved by every\n"
        "method, hence by every call sequence (C14).",
        extra_imports="import CfdpVerif.Lemmas.StdDo", params="(T : List (Nat × Nat))")
    files["InvSourceFaults.lean"] = gen(
        "Source", "Faults", "FltsOk", "c", FLTS_DEF % "SrcSt", close_f, {"declareFault": DF_SRC}, {},
        "Source handler: every fault callback ever delivered is of the kind the fault handler table configures\n"
        "for its condition (C14).",
        extra_imports="import CfdpVerif.Lemmas.StdDo", params="(T : List (Nat × Nat))")
    SEQ_DEF = '''/-- the transaction sequence numbers of the Transaction indications issued so far, in order -/
def txSeqs (l : List Ind) : List Nat :=
  l.filterMap fun i => match i with
    | .tx tid _ => some tid.seq.val
    | _ => none

@[simp] theorem txSeqs_append (l m : List Ind) : txSeqs (l ++ m) = txSeqs l ++ txSeqs m := by
  simp [txSeqs, List.filterMap_append]

@[simp] theorem txSeqs_tx (t : Tid) (o : Option Tid) : txSeqs [.tx t o] = [t.seq.val] := rfl
@[simp] theorem txSeqs_eofSent (t : Tid) : txSeqs [.eofSent t] = [] := rfl
@[simp] theorem txSeqs_finished (t : Option Tid) (p : FinishedParams) : txSeqs [.finished t p] = [] := rfl

/-- a statement `Q` about the sequence number provider and the sequence numbers issued so far -/
def Dep (_ : Env) (Q : SeqProv → List Nat → Prop) (s : SrcSt) : Prop := Q s.prov (txSeqs s.inds)
'''
    EMIT_SEQ = '''theorem emitInd_d (env : Env) (Q : SeqProv → List Nat → Prop) (i : Ind) (h : ∀ t o, i ≠ .tx t o) :
    Preserves (Dep env Q) (emitInd i) := by
  unfold emitInd
  refine Preserves.modify (fun s hs => ?_)
  have : txSeqs [i] = [] := by
    cases i <;> first | rfl | exact absurd rfl (h _ _)
  simp only [Dep, txSeqs_append, this, List.append_nil] at hs ⊢
  exact hs'''
    nt = "emitInd_d env Q _ (by intro t o h; cases h)"
    seq_only = [t[0] for t in SOURCE if t[0] not in ("transactionStart", "fsmNonIdle", "stateMachine")]
    files["InvSourceSeq.lean"] = gen(
        "Source", "Seq", "Dep", "d", SEQ_DEF, "simp_all [Dep]", {"emitInd": EMIT_SEQ},
        {"emitInd:eofsent": nt, "emitInd:finished": nt},
        "Source handler: every method except `_transaction_start` (and its callers) leaves the sequence\n"
        "number provider and the list of sequence numbers issued so far alone — stated as the preservation of\n"
        "an arbitrary statement `Q` about the two (C19).", only=seq_only,
        params="(Q : SeqProv → List Nat → Prop)")
    ORD_DEF = '''/-- one indication against the transaction currently open in the log (`none` = out of order) -/
def ordStep (o : Option Tid) : Ind → Option (Option Tid)
  | .tx t _ => some (some t)
  | .eofSent t => if o = some t then some o else none
  | .finished (some t) _ => if o = some t then some none else none
  | .finished none _ => none
  | _ => some o

/-- scan of the indication log: the transaction open at its end, `none` if some indication was out of
order (an EOF-Sent or Transaction-Finished for a transaction that is not the open one) -/
def ordScan (l : List Ind) : Option (Option Tid) :=
  l.foldl (fun acc i => acc.bind fun o => ordStep o i) (some none)

theorem ordScan_snoc (l : List Ind) (i : Ind) : ordScan (l ++ [i]) = (ordScan l).bind fun o => ordStep o i := by
  simp [ordScan, List.foldl_append]

theorem ordScan_snoc_tx (l : List Ind) (t : Tid) (o : Option Tid) (h : ordScan l ≠ none) :
    ordScan (l ++ [.tx t o]) = some (some t) := by
  cases hs : ordScan l with
  | none => exact absurd hs h
  | some x => simp [ordScan_snoc, hs, ordStep]

/-- the log is in causal order, and the transaction the handler works on is the one open in the log -/
def OrdOk (_ : Env) (s : SrcSt) : Prop :=
  ordScan s.inds ≠ none ∧ ∀ t, s.p.tid = some t → ordScan s.inds = some (some t)
'''
    EMIT_ORD = '''theorem emitInd_o (env : Env) (i : Ind) (h : ∀ o, ordStep o i = some o) :
    Preserves (OrdOk env) (emitInd i) := by
  unfold emitInd
  refine Preserves.modify (fun s hs => ?_)
  obtain ⟨h1, h2⟩ := hs
  cases hsc : ordScan s.inds with
  | none => exact absurd hsc h1
  | some o =>
    refine ⟨by simp [ordScan_snoc, hsc, h], fun t ht => ?_⟩
    have := h2 t ht
    rw [hsc] at this
    simp [ordScan_snoc, hsc, h, this]'''
    MV = '''open Std.Do in
set_option mvcgen.warning false in
theorem %s_o (env : Env) %s:
    Preserves (OrdOk env) (%s) := by
  apply preserves_of_triple
  mvcgen [%s]
  all_goals (simp +zetaDelta only [OrdOk, ordScan_snoc] at *; grind [ordStep])'''
    ov = {"emitInd": EMIT_ORD,
          "resetInternal": MV % ("resetInternal", "(b : Bool) ", "resetInternal b", "resetInternal"),
          "prepareEofPdu": MV % ("prepareEofPdu", "(c : List UInt8) ", "prepareEofPdu env c",
                                 "prepareEofPdu, getP, addPacket, emitInd"),
          "noticeOfCompletion": MV % ("noticeOfCompletion", "", "noticeOfCompletion env",
                                      "noticeOfCompletion, getP, modP, emitInd, resetInternal"),
          "transactionStart": (MV % ("transactionStart", "", "transactionStart env",
                                     "transactionStart, getP, modP, emitInd")).replace(
              "simp +zetaDelta only [OrdOk, ordScan_snoc] at *; grind [ordStep]",
              "simp +zetaDelta only [OrdOk] at *; first | grind | (obtain ⟨h1, h2⟩ := ‹_ ∧ _›; simp [ordScan_snoc_tx _ _ _ h1])")}
    files["InvSourceOrder.lean"] = gen(
        "Source", "Order", "OrdOk", "o", ORD_DEF,
        "first | (simp_all [OrdOk]; done) | (simp_all [OrdOk, ordScan_snoc, ordStep]; done) | skip", ov,
        {},
        "Source handler: the indication log is in causal order — Transaction, then EOF-Sent (possibly repeated),\n"
        "then Transaction-Finished, each for the transaction opened by the last Transaction indication (C15).",
        inline=("modP",), extra_imports="import CfdpVerif.Lemmas.StdDo")
    files["InvSourceBound.lean"] = gen(
        "Source", "Bound", "AckBound", "b",
        "/-- the positive-ACK retry counter stays below the limit: outside a transaction it is 0, inside it is 0\n"
        "or `counter + 1 ≤ limit` (so the EOF is re-sent at most `limit - 1` times) -/\n"
        "def AckBound (_ : Env) (s : SrcSt) : Prop :=\n"
        "  (s.state ≠ .busy → s.p.remoteCfg = none ∧ s.p.ackCounter = 0) ∧\n"
        "  ∀ rc, s.p.remoteCfg = some rc → s.p.ackCounter = 0 ∨ s.p.ackCounter + 1 ≤ rc.ackLim",
        "first | (simp_all [AckBound]; done) | (simp_all [AckBound]; omega) | (simp_all [AckBound]; grind)",
        {"handlePositiveAck": '''open Std.Do in
set_option mvcgen.warning false in
theorem handlePositiveAck_b (env : Env) :
    Preserves (AckBound env) (handlePositiveAckProcedures env) := by
  apply preserves_of_triple
  have h1 := fun c => triple_of_preserves (declareFault_b env c)
  have h2 := fun n => triple_of_preserves (checksumCalculation_b env n)
  have h3 := fun c => triple_of_preserves (prepareEofPdu_b env c)
  mvcgen [handlePositiveAckProcedures, getP, modP, h1, h2, h3]
  all_goals (simp +zetaDelta only [AckBound] at *; grind)''',
         "putRequest": '''open Std.Do in
set_option mvcgen.warning false in
theorem putRequest_b (env : Env) (q : PutReq) :
    Preserves (AckBound env) (putRequest env q) := by
  apply preserves_of_triple
  mvcgen [putRequest, modP]
  all_goals (simp +zetaDelta only [AckBound] at *; grind)'''}, {},
        "Source handler: the retry counter of the EOF never reaches the limit — for every call sequence (C04).",
        inline=("modP",), extra_imports="import CfdpVerif.Lemmas.StdDo")
    files["InvDestBound.lean"] = gen(
        "Dest", "Bound", "NakBound", "b",
        "/-- the NAK retry counter stays below its limit: outside a transaction there is no remote configuration\n"
        "and the counter is 0; inside, `counter + 1 ≤ limit` whenever the limit is at least 1 (so the NAK\n"
        "sequence is re-issued at most `limit - 1` times without progress) -/\n"
        "def NakBound (_ : Env) (s : DestSt) : Prop :=\n"
        "  (s.state ≠ .busy → s.p.remoteCfg = none ∧ s.p.nakCounter = 0) ∧\n"
        "  ∀ rc, s.p.remoteCfg = some rc → 1 ≤ rc.nakLim → s.p.nakCounter + 1 ≤ rc.nakLim",
        "first | (simp_all [NakBound]; done) | (simp_all [NakBound]; omega) | (simp_all [NakBound]; grind)",
        {"commonFirstPacketHandler": '''open Std.Do in
set_option mvcgen.warning false in
theorem commonFirstPacketHandler_b (env : Env) (h : Hdr) :
    Preserves (NakBound env) (commonFirstPacketHandler env h) := by
  apply preserves_of_triple
  mvcgen [commonFirstPacketHandler, modP]
  all_goals (simp +zetaDelta only [NakBound] at *; grind)''',
         "deferred": '''open Std.Do in
set_option mvcgen.warning false in
theorem deferred_b (env : Env) :
    Preserves (NakBound env) (deferredLostSegmentHandling env) := by
  apply preserves_of_triple
  have h1 := triple_of_preserves (checksumVerify_b env)
  have h3 := fun c => triple_of_preserves (declareFault_b env c)
  mvcgen [deferredLostSegmentHandling, getP, modP, addPackets, h1, h3]
  all_goals (simp +zetaDelta only [NakBound] at *; grind)'''}, {},
        "Destination handler: the retry counter of the NAK sequence never reaches its limit — for every call\n"
        "sequence (C04).", inline=("modP",), extra_imports="import CfdpVerif.Lemmas.StdDo")
    # receiver side of C15's causal order (definitions: Lemmas/IndPhase.lean, hand-written)
    names = [t[0] for t in DEST]
    pre = names[:names.index("checkLimitHandling") + 1]
    n_only = [x for x in pre if x != "emitInd"] + ["checkInserted", "idleFsm", "getNextPacket", "cancelRequest"]
    files["InvDestPhaseN.lean"] = gen(
        "Dest", "PhaseN", "NoFin", "n", "open Cfdp.Dest.Phase", "simp_all [NoFin, since]", {},
        {"emitInd:md": "emitInd_md_n env L0 _ _ _ _ _ _", "emitInd:eofrecv": "emitInd_eofRecv_n env L0 _",
         "emitInd:segrecv": "emitInd_seg_n env L0 _ _ _"},
        "Destination handler: every method that can run before the completion of a transfer (everything but\n"
        "`_notice_of_completion` and its callers) issues no Transaction-Finished indication (C15, receiver order).",
        only=n_only, extra_imports="import CfdpVerif.Lemmas.IndPhase", params="(L0 : List Ind)")
    c_only = ["addPacket", "modP", "getP", "transmissionMode", "resetInternal", "noticeOfCancellation",
              "declareFault", "prepareEofAckPacket", "noticeOfCompletion", "handleTransferCompletion",
              "prepareFinishedPdu", "startPositiveAck", "handleFinishedPduSent", "resendFinished",
              "handlePositiveAck", "handleWaitingFinAck", "fsmFromWaitingForFinishedAck",
              "fsmFromSendingFinishedPdu", "fsmFromTransferCompletion"]
    files["InvDestPhaseC.lean"] = gen(
        "Dest", "PhaseC", "Closed", "c", "open Cfdp.Dest.Phase",
        "first | (simp_all [Closed, since, CS]; done) | (simp_all [Closed, since, CS]; grind)", {},
        {"emitInd:finished": "emitInd_fin_c env L0 _ _"},
        "Destination handler: the completion phase is closed — from the steps TRANSFER_COMPLETION,\n"
        "SENDING_FINISHED_PDU, WAITING_FOR_FINISHED_ACK (and IDLE) the methods of that phase lead only to these\n"
        "steps and issue only Transaction-Finished indications (C15, receiver order).",
        only=c_only, extra_imports="import CfdpVerif.Lemmas.IndPhase", params="(L0 : List Ind)")
    for n, t in files.items():
        (OUT / n).write_text(t)
        print("wrote", n)


if __name__ == "__main__":
    main()
