#!/bin/bash
# usage: tools/try_seeded.sh <seeded-dir> <PID> [PID...]  — apply patch to /repo, run checks, revert
d="$(cd "$1" && pwd)"; shift
git -C /repo apply "$d/patch.diff" || { echo "patch failed"; exit 3; }
for pid in "$@"; do
  out=$(cd /verif && timeout 3000 ./check "$pid" 2>&1); rc=$?
  echo "== $pid rc=$rc: $(echo "$out" | grep -E '^VIOLATION' | head -3) $(echo "$out" | grep -c '^KNOWN-FINDING') known-finding line(s)"
done
git -C /repo checkout -- .
# the finite tables were regenerated from the patched tree: bring them back to the clean tree
cd /verif && /venv/bin/python -c "import sys; sys.path.insert(0, 'harness'); import tables; tables.write_tables()" >/dev/null
