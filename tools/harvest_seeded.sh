#!/bin/bash
# usage: tools/harvest_seeded.sh <seeded-id>...  — run the property's check on each seeded change; keep the replay
# it produces as corpus/regress/<pid>/<seeded-id>.json when that replay passes on the clean tree
cd /verif
for id in "$@"; do
  pid=${id%%-*}
  git -C /repo apply /verif/seeded/$id/patch.diff || { echo "$id: patch failed"; continue; }
  out=$(timeout 3000 ./check $pid 2>&1); rc=$?
  git -C /repo checkout -- .
  /venv/bin/python -c "import sys; sys.path.insert(0, 'harness'); import tables; tables.write_tables()" >/dev/null
  reps=$(echo "$out" | grep -oE 'VIOLATION property=[A-Z0-9]+ replay=[^ ]+' | sed 's/.*replay=//')
  nf=$(echo "$out" | grep -c 'no-failing-input-found')
  kept=""
  for r in $reps; do
    [ -f "$r" ] || continue
    if timeout 600 ./check $pid --replay "$r" >/dev/null 2>&1; then
      mkdir -p corpus/regress/$pid; cp "$r" corpus/regress/$pid/$id.json
      # the corpus entry must be quiet on the clean tree when it runs as part of the check
      if timeout 3000 ./check $pid >/dev/null 2>&1; then kept=$r; break; else rm corpus/regress/$pid/$id.json; fi
    fi
  done
  echo "$id: rc=$rc violations=$(echo "$reps" | wc -w) no-failing-input=$nf kept=${kept:-none}"
done
