#!/bin/bash
# usage: tools/try_harmless.sh <harmless-dir> [seed]  — apply a behaviour-preserving refactoring to /repo, run all
# 20 checks, revert.  Every check must stay quiet (exit 0).
d="$(cd "$1" && pwd)"; seed=${2:-0}
git -C /repo apply "$d/patch.diff" || { echo "patch failed"; exit 3; }
cd /repo && timeout 900 /venv/bin/python -m pytest -q -p no:cacheprovider --timeout=900 2>&1 | tail -1
cd /verif && tools/run_all.sh $seed
git -C /repo checkout -- .
/venv/bin/python -c "import sys; sys.path.insert(0, 'harness'); import tables; tables.write_tables()" >/dev/null
