#!/bin/bash
# usage: tools/run_all.sh <seed> [tier]  — every registered check on the current /repo tree; one line per check
seed=${1:-0}; tier=${2:-quick}
cd /verif
for p in C01 C02 C03 C04 C05 C06 C07 C08 C09 C10 C11 C12 C13 C14 C15 C16 C17 C18 C19 C20; do
  s=$(date +%s)
  out=$(VERIF_SEED=$seed VERIF_TIER=$tier ./check $p 2>&1); rc=$?
  echo "$p seed=$seed tier=$tier rc=$rc $(( $(date +%s) - s ))s $(echo "$out" | grep -E 'VIOLATION|KNOWN-FINDING|Traceback' | cut -c1-160 | head -3 | tr '\n' ' ')"
done
