#!/bin/bash
# usage: tools/coverage_all.sh [seed]  — branch coverage of /repo/src/cfdppy under the sessions of all 20 quick
# checks (coverage.py of /venv); data files under /tmp/cfdpcov (removed at the end); report on stdout.
# Answers "what do the generators never reach?" — the correspondence only sees what they reach.
seed=${1:-0}
d=/tmp/cfdpcov; rm -rf $d; mkdir -p $d
cd /verif
for n in $(seq -w 1 20); do
  COVERAGE_FILE=$d/.coverage.C$n VERIF_SEED=$seed /venv/bin/python -m coverage run --branch \
    --include='/repo/src/cfdppy/*' harness/check.py C$n >/dev/null 2>&1 &
  if (( 10#$n % 5 == 0 )); then wait; fi
done
wait
cd $d && /venv/bin/python -m coverage combine -q --data-file=$d/.coverage $d/.coverage.C* >/dev/null 2>&1
/venv/bin/python -m coverage report --data-file=$d/.coverage -m --skip-empty 2>&1
rm -rf $d
