"""Scenario suites with their own reference expectations (DESIGN.md §6 C04, C13): timer-driven retry
procedures against a peer that falls silent, and EOF overtaking file data in unacknowledged mode.
Each scenario is a recorded session (replayable on the model) plus the list of oracle failures."""
from __future__ import annotations

import gen_handlers as g
import oracles as o
from common import Rng
from link import Cfg, Link, Pacing, header_with_parent_dirs, rand_bytes, rand_cfg
from session import Session, Status, pdu_fields, pdu_kind
from trace import Trace, ind_parts


def _drain_kinds(s: Session, h: str):
    return [pdu_kind(p) for p in s.drain(h)], None


def c04_source(rng: Rng):
    """sender: peer silent after the EOF.  N-1 re-sends, limit fault at the N-th expiry, EOF (cancel),
    N-1 re-sends of it, abandon at expiry 2N, idle.  Optionally j < N expiries, then the ACK."""
    c = rand_cfg(rng, mode="A", put_mode="-", metadata_only=False)
    c.faults_s = ""
    ms, lim = (int(x) for x in c.ack.split("/"))
    s = Session(header_with_parent_dirs(c))
    f = o.Fails()
    s.do(c.put_line())
    seq = None
    for _ in range(400):
        st = s.sm("S")
        if st.ok and st.tid != "-":
            seq = int(st.tid.split(":")[1].split("/")[0])
        s.drain("S")
        if st.ok and st.step == "WAITING_FOR_EOF_ACK":
            break
    else:
        return s, f, c, {"skipped": "never reached WAITING_FOR_EOF_ACK"}
    silent_for = rng.choice((None, None, rng.randrange(0, lim)))     # None: forever
    expiries = 0
    resent = 0
    phase = 1                                   # 1: EOF exchange, 2: EOF (cancel) exchange
    events = []
    # half-silent link: the receiver's ACKs never arrive but its NAKs do; serving a NAK is not progress for the
    # EOF: no EOF outside the timer, counter and expiry schedule untouched
    half_silent = rng.chance(0.4)
    nfile = len(c.data)
    for step in range(4 * lim + 6):
        rem = ms
        if half_silent and rng.chance(0.6) and ms > 2:
            t1 = rng.randrange(0, ms - 1)
            s.tick(t1)
            rem -= t1
            reqs = [(0, 0)] if nfile == 0 or rng.chance(0.3) else [(0, min(max(1, c.seg_len), nfile))]
            before = Status(s.out[-1]) if s.out else None
            stn = s.sm("S", g.nak(g.hdr(c, seq, direction="S"), 0, nfile, reqs))
            gotn = s.drain("S")
            kn = [pdu_kind(p) for p in gotn]
            if not stn.ok or stn.flt or "eof" in kn or not kn or (phase == 1 and stn.ack != expiries) \
                    or (phase == 2 and stn.ack != expiries - lim):
                f.add("C04:source:served-nak-is-not-progress-for-the-eof",
                      {"pdus": kn, "flt": stn.flt, "counter": stn.ack if stn.ok else None,
                       "expiries": expiries, "phase": phase, "out": stn.line[:160]}, len(s.ops) - 1)
                break
        # a call just before the expiry changes nothing
        if rem > 1 and rng.chance(0.5):
            s.tick(rem - 1)
            st0 = s.sm("S")
            got = s.drain("S")
            if got or st0.flt:
                f.add("C04:source:activity-before-expiry", {"pdus": got, "flt": st0.flt}, len(s.ops) - 1)
            s.tick(1)
        else:
            s.tick(rem)
        if silent_for is not None and expiries == silent_for and phase == 1:
            # progress: the awaited ACK arrives instead of an expiry
            st = s.sm("S", g.ack(g.hdr(c, seq, direction="S"), 4, 0, 1))
            got = s.drain("S")
            if st.exc is not None or st.flt or (st.ok and st.step != "WAITING_FOR_FINISHED"):
                f.add("C04:source:ack-did-not-end-the-wait", {"out": st.line[:200]}, len(s.ops) - 1)
            return s, f, c, {"expiries": expiries, "acked": True}
        st = s.sm("S")
        got = s.drain("S")
        expiries += 1
        if not st.ok:
            f.add("C04:source:call-failed", {"out": st.line[:200]}, len(s.ops) - 1)
            break
        n_in_phase = expiries if phase == 1 else expiries - lim
        kinds = [pdu_kind(p) for p in got]
        events.append((expiries, phase, kinds, st.flt, st.state))
        if n_in_phase < lim:
            if kinds != ["eof"] or st.flt or st.ack != n_in_phase:
                f.add(f"C04:source:expiry-below-limit:phase{phase}",
                      {"expiry": n_in_phase, "limit": lim, "pdus": kinds, "flt": st.flt, "counter": st.ack},
                      len(s.ops) - 1)
                break
            resent += 1
        elif phase == 1:
            want = f"cancel({st.tid if st.tid != '-' else ''}"
            if not (len(st.flt) == 1 and st.flt[0].startswith("cancel(") and ind_parts(st.flt[0])[1][1] == "1") \
                    or kinds != ["eof"] or pdu_fields(got[0])["cond"] != "1":
                f.add("C04:source:limit-fault-at-Nth-expiry", {"limit": lim, "pdus": kinds, "flt": st.flt},
                      len(s.ops) - 1)
                break
            phase = 2
        else:
            if not (len(st.flt) == 1 and st.flt[0].startswith("abandon(")) or st.state != "IDLE" or kinds:
                f.add("C04:source:no-abandon-after-cancel-exchange-timed-out",
                      {"limit": lim, "pdus": kinds, "flt": st.flt, "state": st.state}, len(s.ops) - 1)
            break
    else:
        f.add("C04:source:not-idle-after-2N-expiries", {"limit": lim, "events": str(events)[:400]})
    last = Status(s.out[-1]) if s.out else None
    return s, f, c, {"expiries": expiries, "resent": resent}


def c04_dest(rng: Rng):
    """receiver: peer silent after the Finished PDU (acknowledged mode): N-1 re-sends, limit fault +
    Finished (cancel) at the N-th expiry, N-1 re-sends, abandon at 2N, idle.  Or: peer silent while
    data is missing: NAK re-issues, NAK limit at the configured expiry."""
    c = rand_cfg(rng, mode="A", put_mode="-", metadata_only=False)
    c.faults_d = ""
    f = o.Fails()
    ms, lim = (int(x) for x in c.ack.split("/"))
    nms, nlim = (int(x) for x in c.nak.split("/"))
    s = Session(header_with_parent_dirs(c))
    seq = c.seqnext
    h = g.hdr(c, seq)
    n = len(c.data)
    which = rng.choice(("finished", "nak", "nak-md")) if n > 0 else "finished"
    tiles = g.grid(n, max(1, c.seg_len))
    if which == "nak-md":
        # the Metadata PDU is lost too: nothing can be stored before it is re-sent, the whole file is
        # missing when it arrives (File Data PDUs before the EOF may or may not have arrived)
        lost = set(range(len(tiles)))
        early = set(rng.sample(range(len(tiles)), rng.randrange(0, len(tiles) + 1))) if rng.chance(0.4) else set()
        for i in sorted(early):
            off, ln = tiles[i]
            s.sm("D", g.fd(h, off, c.data[off:off + ln]))
            s.drain("D")
    else:
        s.sm("D", g.md(c, h, msgs=c.msgs))
        s.drain("D")
        lost = set(rng.sample(range(len(tiles)), rng.randrange(1, len(tiles) + 1))) if which == "nak" else set()
    for i, (off, ln) in enumerate(tiles):
        if i in lost:
            continue
        s.sm("D", g.fd(h, off, c.data[off:off + ln]))
        s.drain("D")
    s.sm("D", g.eof(h, 0, g.ref_checksum(c.cks, c.data), n))
    s.drain("D")
    st = s.sm("D")
    first = s.drain("D")
    if which == "finished":
        if not (st.ok and st.step == "WAITING_FOR_FINISHED_ACK"):
            return s, f, c, {"skipped": f"step {st.step if st.ok else '?'}"}
        expiries, phase = 0, 1
        # half-silent link: the receiver's PDUs never arrive, but the sender's do — it keeps re-sending its
        # EOF, which the receiver acknowledges again; that is not progress for the Finished PDU: no
        # Finished re-send outside the timer, the counter and the timer are untouched
        half_silent = rng.chance(0.5)
        eof_again = g.eof(h, 0, g.ref_checksum(c.cks, c.data), n)
        bad = False
        for _ in range(2 * lim + 3):
            rem = ms
            if half_silent and rng.chance(0.6):
                t1 = rng.randrange(0, ms)
                s.tick(t1)
                rem -= t1
                before = Status(s.out[-1]) if s.out else None
                ste = s.sm("D", eof_again)
                gote = s.drain("D")
                kinds_e = [pdu_kind(p) for p in gote]
                dt_e = [pdu_fields(p).get("of") for p in gote]
                if not ste.ok or kinds_e != ["ack"] or dt_e != ["4"] or ste.flt or ste.step != "WAITING_FOR_FINISHED_ACK" \
                        or ste.ack != st.ack:
                    f.add("C04:dest:re-received-eof-is-not-progress",
                          {"pdus": gote, "flt": ste.flt, "step": ste.step if ste.ok else "?",
                           "counter": [st.ack, ste.ack if ste.ok else None]}, len(s.ops) - 1)
                    bad = True
                    break
            if rem > 1 and rng.chance(0.4):
                s.tick(rem - 1)
                st0 = s.sm("D")
                got0 = s.drain("D")
                if got0 or st0.flt:
                    f.add("C04:dest:activity-before-expiry", {"pdus": got0, "flt": st0.flt}, len(s.ops) - 1)
                s.tick(1)
            else:
                s.tick(rem)
            st = s.sm("D")
            got = s.drain("D")
            expiries += 1
            kinds = [pdu_kind(p) for p in got]
            k = expiries if phase == 1 else expiries - lim
            if not st.ok:
                f.add("C04:dest:call-failed", {"out": st.line[:200]}, len(s.ops) - 1)
                break
            if k < lim:
                if kinds != ["fin"] or st.flt or st.ack != k:
                    f.add(f"C04:dest:finished-expiry-below-limit:phase{phase}",
                          {"expiry": k, "limit": lim, "pdus": kinds, "flt": st.flt, "counter": st.ack}, len(s.ops) - 1)
                    break
            elif phase == 1:
                ok = len(st.flt) == 1 and st.flt[0].startswith("cancel(") and ind_parts(st.flt[0])[1][1] == "1" \
                    and kinds == ["fin"] and pdu_fields(got[0])["cond"] == "1"
                if not ok:
                    f.add("C04:dest:limit-fault-at-Nth-expiry", {"limit": lim, "pdus": kinds, "flt": st.flt},
                          len(s.ops) - 1)
                    break
                phase = 2
            else:
                if not (len(st.flt) == 1 and st.flt[0].startswith("abandon(")) or st.state != "IDLE" or kinds:
                    f.add("C04:dest:no-abandon-after-cancel-exchange-timed-out",
                          {"limit": lim, "pdus": kinds, "flt": st.flt, "state": st.state}, len(s.ops) - 1)
                break
        else:
            if not bad:
                f.add("C04:dest:not-idle-after-2N-expiries", {"limit": lim})
        return s, f, c, {"which": which, "expiries": expiries, "half_silent": half_silent}
    # NAK procedure: the first sequence was issued at once (counter 0); expiry e re-issues while
    # counter + 1 != limit, the limit fault is declared at the expiry with counter + 1 == limit
    if not (st.ok and st.deferred):
        return s, f, c, {"skipped": "deferred procedure not active"}
    base = sorted(p for p in first if pdu_kind(p) == "nak")
    # "progress resets the count": after j silent expiries (0 < j < limit) one of several missing
    # tiles arrives (it may close only a part of a gap); the count of consecutive expiries without
    # progress starts again from zero and the timer is restarted
    j_progress = rng.randrange(1, nlim) if (nlim > 1 and len(lost) > 1 and rng.chance(0.6)) else None
    if which == "nak-md":
        # the progress is the arrival of the re-requested Metadata PDU, after 0 <= j < limit silent expiries
        # (the file data is still missing then and the sender falls silent for good)
        j_progress = rng.randrange(0, nlim) if rng.chance(0.85) else None
    e = 0
    while True:
        if j_progress is not None and e == j_progress:
            j_progress = None
            s.tick(rng.randrange(0, nms))
            if which == "nak-md":
                st = s.sm("D", g.md(c, h, msgs=c.msgs))
            else:
                i = rng.choice(sorted(lost))
                lost.discard(i)
                off, ln = tiles[i]
                st = s.sm("D", g.fd(h, off, c.data[off:off + ln]))
            got = s.drain("D")
            if not st.ok or st.flt or st.nak != 0:
                f.add("C04:dest:progress-does-not-reset-nak-count",
                      {"after_expiries": e, "limit": nlim, "counter": st.nak if st.ok else None, "flt": st.flt,
                       "progress": "metadata" if which == "nak-md" else "file data"}, len(s.ops) - 1)
                break
            if any(pdu_kind(p) == "nak" for p in got):
                f.add("C04:dest:nak-activity-before-expiry", {"pdus": got[:2], "after": "progress"}, len(s.ops) - 1)
                break
            e, base = 0, None
        e += 1
        if e > nlim + 1:
            break
        if rng.chance(0.4):
            s.tick(nms - 1)
            st0 = s.sm("D")
            got0 = s.drain("D")
            if got0 or st0.flt:
                f.add("C04:dest:nak-activity-before-expiry", {"pdus": got0[:2], "flt": st0.flt}, len(s.ops) - 1)
            s.tick(1)
        else:
            s.tick(nms)
        st = s.sm("D")
        got = s.drain("D")
        if not st.ok:
            f.add("C04:dest:call-failed", {"out": st.line[:200]}, len(s.ops) - 1)
            break
        naks = sorted(p for p in got if pdu_kind(p) == "nak")
        if e < nlim:
            if (base is not None and naks != base) or not naks or st.flt or st.nak != e:
                f.add("C04:dest:nak-expiry-below-limit",
                      {"expiry": e, "limit": nlim, "naks": len(naks), "flt": st.flt, "counter": st.nak}, len(s.ops) - 1)
                break
            base = naks
        else:
            if not (len(st.flt) == 1 and ind_parts(st.flt[0])[1][1] == "7") or naks:
                f.add("C04:dest:nak-limit-fault-at-Nth-expiry",
                      {"expiry": e, "limit": nlim, "flt": st.flt, "naks": len(naks)}, len(s.ops) - 1)
            break
    return s, f, c, {"which": which}


def c13_dest(rng: Rng):
    """unacknowledged mode, EOF overtakes a subset of the tiles; the late tiles arrive at chosen
    expiries (or never).  Reference: completion at the first expiry at which everything has arrived;
    Check-limit-reached exactly at the limit-th expiry otherwise."""
    c = rand_cfg(rng, mode="U", put_mode="-", metadata_only=False)
    c.faults_d = ""
    if c.cks == 15 or c.cks == 0:
        c.cks = rng.choice((2, 3))
    if len(c.data) == 0:
        c.data = rand_bytes(rng, rng.randrange(1, 3 * max(1, c.seg_len) + 1))
    f = o.Fails()
    lim = c.chklim
    ms = c.chkms
    s = Session(header_with_parent_dirs(c))
    h = g.hdr(c, c.seqnext)
    n = len(c.data)
    tiles = g.grid(n, max(1, c.seg_len))
    late = sorted(rng.sample(range(len(tiles)), rng.randrange(1, len(tiles) + 1)))
    # arrival: expiry index (1-based) before which the late tile arrives; lim+1.. = never
    arrive = {i: rng.randrange(1, lim + 2) for i in late}
    # reference: the stored file after the arrivals before each expiry (a lost tile of zero bytes in the
    # middle of the file is indistinguishable from a zero-filled gap: then the transfer IS complete)
    def stored(upto: int) -> bytes:
        buf = b""
        for i, (off, ln) in enumerate(tiles):
            if i not in late:
                buf = o.write_model(buf, c.data[off:off + ln], off)
        for ee in range(1, upto + 1):
            for i in late:
                if arrive[i] == ee:
                    off, ln = tiles[i]
                    buf = o.write_model(buf, c.data[off:off + ln], off)
        return buf
    complete_at = next((ee for ee in range(1, lim + 1) if stored(ee) == c.data), None)
    if stored(0) == c.data:
        return s, f, c, {"skipped": "file already complete at EOF"}
    # time passes between Metadata, the File Data PDUs and the EOF (the check timer runs from the EOF,
    # whatever happened before)
    paced = rng.chance(0.6)
    s.sm("D", g.md(c, h, msgs=c.msgs))
    s.drain("D")
    if paced:
        s.tick(rng.choice((1, ms - 1, ms, ms + 1, 2 * ms, rng.randrange(1, 3 * ms + 1))))
    for i, (off, ln) in enumerate(tiles):
        if i not in late:
            s.sm("D", g.fd(h, off, c.data[off:off + ln]))
            s.drain("D")
            if paced and rng.chance(0.3):
                s.tick(rng.randrange(1, ms + 1))
    st = s.sm("D", g.eof(h, 0, g.ref_checksum(c.cks, c.data), n))
    s.drain("D")
    if not (st.ok and st.step == "RECV_FILE_DATA_WITH_CHECK_LIMIT_HANDLING"):
        f.add("C13:eof-early-did-not-wait", {"out": st.line[:240]}, len(s.ops) - 1)
        return s, f, c, {}
    if any(x.startswith("finished(") for x in st.ind):
        f.add("C13:finished-at-early-eof", {"ind": st.ind}, len(s.ops) - 1)
    done = False
    for e in range(1, lim + 1):
        for i in late:
            if arrive[i] == e:
                off, ln = tiles[i]
                st = s.sm("D", g.fd(h, off, c.data[off:off + ln]))
                s.drain("D")
                if any(x.startswith("finished(") for x in st.ind):
                    f.add("C13:finished-before-check-expiry", {"ind": st.ind}, len(s.ops) - 1)
        if rng.chance(0.3):
            s.tick(ms - 1)
            st0 = s.sm("D")
            s.drain("D")
            if st0.ok and (st0.chk != e - 1 or any(x.startswith("cancel(") for x in st0.flt)):
                f.add("C13:check-before-expiry", {"out": st0.line[:200]}, len(s.ops) - 1)
            s.tick(1)
        else:
            s.tick(ms)
        st = s.sm("D")
        got = s.drain("D")
        fins = [ind_parts(x)[1] for x in st.ind if x.startswith("finished(")]
        limit_flt = [x for x in st.flt if ind_parts(x)[1][1] == "10"]
        if complete_at is not None and e == complete_at:
            ok = (c.ind_d[3] == "0" or (len(fins) == 1 and fins[0][1:4] == ["0", "0", "2"])) and not limit_flt
            final = s.fs_content("D", c.expected_dest_path())
            if not ok or final != c.data:
                f.add("C13:late-data-did-not-complete",
                      {"expiry": e, "fins": fins, "flt": st.flt, "file_ok": final == c.data}, len(s.ops) - 1)
            done = True
            break
        if e < lim:
            if fins or limit_flt or (st.ok and st.chk != e):
                f.add("C13:expiry-below-limit", {"expiry": e, "limit": lim, "fins": fins, "flt": st.flt,
                                                 "counter": st.chk if st.ok else None}, len(s.ops) - 1)
                done = True
                break
        else:
            ok = len(limit_flt) == 1 and (c.ind_d[3] == "0" or (len(fins) == 1 and fins[0][1] == "10" and fins[0][2] == "1"))
            if not ok:
                f.add("C13:check-limit-at-limit-th-expiry", {"expiry": e, "limit": lim, "fins": fins, "flt": st.flt},
                      len(s.ops) - 1)
            if c.eff_closure:
                finp = [pdu_fields(p) for p in got if pdu_kind(p) == "fin"]
                if not finp or finp[0]["cond"] != "10" or finp[0]["deliv"] != "1":
                    f.add("C13:finished-pdu-after-check-limit", {"pdus": got[:2]}, len(s.ops) - 1)
            done = True
    return s, f, c, {"late": len(late), "complete_at": complete_at}


def c13_source(rng: Rng):
    """sender with closure, unacknowledged: no Finished PDU before the check timer expires =>
    Check-limit-reached, EOF (cancel)"""
    c = rand_cfg(rng, mode="U", put_mode="-", closure=1, put_closure="-", metadata_only=False)
    c.faults_s = ""
    f = o.Fails()
    s = Session(header_with_parent_dirs(c))
    s.do(c.put_line())
    st = None
    for _ in range(400):
        st = s.sm("S")
        s.drain("S")
        if st.ok and st.step == "WAITING_FOR_FINISHED":
            break
    else:
        return s, f, c, {"skipped": "never reached WAITING_FOR_FINISHED"}
    s.tick(c.chkms - 1)
    st = s.sm("S")
    got = s.drain("S")
    if st.flt or got:
        f.add("C13:source-check-timer-early", {"flt": st.flt}, len(s.ops) - 1)
    s.tick(1)
    st = s.sm("S")
    got = s.drain("S")
    kinds = [pdu_kind(p) for p in got]
    if not (len(st.flt) == 1 and st.flt[0].startswith("cancel(") and ind_parts(st.flt[0])[1][1] == "10") \
            or kinds != ["eof"] or pdu_fields(got[0])["cond"] != "10":
        f.add("C13:source-no-check-limit-cancel", {"flt": st.flt, "pdus": kinds}, len(s.ops) - 1)
    return s, f, c, {}


def c13_two_remotes(rng: Rng):
    """implementation only: one receiver, two sending entities for which the user's check timer provider gives
    different intervals; an unacknowledged transaction of each, the EOF overtaking the last tile.  Each
    transaction's check timer is the one the provider gives for ITS sender: no check before that interval has
    passed, completion at the expiry before which the late tile arrived."""
    c = rand_cfg(rng, mode="U", put_mode="-", metadata_only=False)
    c.faults_d = ""
    if c.cks in (15, 0):
        c.cks = rng.choice((2, 3))
    seg = max(1, c.seg_len)
    c.data = rand_bytes(rng, rng.randrange(seg + 1, 3 * seg + 1))
    c.chklim = max(2, c.chklim)
    f = o.Fails()
    w = c.idw
    sv = int(c.sid.split("/")[0])
    sv2 = sv + 1 if sv + 1 < 2 ** (8 * w) and sv + 1 != int(c.did.split("/")[0]) else sv - 1
    if sv2 <= 0 or sv2 == int(c.did.split("/")[0]):
        return Session(header_with_parent_dirs(c)), f, c, {"skipped": "no second entity id available"}
    ms = {sv: rng.choice((400, 1000, 3000)), sv2: rng.choice((700, 2000, 5000))}
    header = []
    for line in header_with_parent_dirs(c):
        if line.startswith("H D "):
            line += " chkmap=" + ",".join(f"{k}:{v}" for k, v in ms.items())
        header.append(line)
        if line.startswith("R D "):
            header.append(line.replace(f"id={c.sid}", f"id={sv2}/{w}"))
    s = Session(header)
    n = len(c.data)
    tiles = g.grid(n, seg)
    order = [sv, sv2] if rng.chance(0.5) else [sv2, sv]
    seq = c.seqnext
    for ent in order:
        h = g.hdr(c, seq, src=f"{ent}/{w}")
        seq = (seq + 1) % 2 ** c.seqbits
        s.sm("D", g.md(c, h, msgs="-"))
        s.drain("D")
        for off, ln in tiles[:-1]:
            s.sm("D", g.fd(h, off, c.data[off:off + ln]))
            s.drain("D")
        st = s.sm("D", g.eof(h, 0, g.ref_checksum(c.cks, c.data), n))
        s.drain("D")
        if not (st.ok and st.step == "RECV_FILE_DATA_WITH_CHECK_LIMIT_HANDLING"):
            return s, f, c, {"skipped": f"step {st.step if st.ok else '?'} after the early EOF"}
        iv = ms[ent]
        off, ln = tiles[-1]
        d = rng.randrange(0, iv - 1)
        s.tick(d)
        s.sm("D", g.fd(h, off, c.data[off:off + ln]))          # the late tile, within the first interval
        s.drain("D")
        # one millisecond before this transaction's own interval has passed: nothing happens
        s.tick(iv - 1 - d)
        st0 = s.sm("D")
        got0 = s.drain("D")
        if not st0.ok or st0.step != "RECV_FILE_DATA_WITH_CHECK_LIMIT_HANDLING" or st0.flt or got0 or \
                any(x.startswith("finished(") for x in st0.ind):
            f.add("C13:check-before-expiry", {"entity": ent, "interval": iv, "out": st0.line[:200]}, len(s.ops) - 1)
            break
        s.tick(1)
        st1 = s.sm("D")
        s.drain("D")
        fin = [x for x in (st1.ind if st1.ok else []) if x.startswith("finished(")]
        if not st1.ok or st1.flt or (fin and ind_parts(fin[0])[1][1:3] != ["0", "0"]) or \
                (st1.ok and st1.step == "RECV_FILE_DATA_WITH_CHECK_LIMIT_HANDLING"):
            f.add("C13:late-data-did-not-complete", {"entity": ent, "interval": iv, "out": st1.line[:200]},
                  len(s.ops) - 1)
            break
        for _ in range(3):                                     # let the transaction end (closure: Finished PDU)
            s.sm("D")
            s.drain("D")
    return s, f, c, {"intervals": ms, "order": order}
