"""Recorded sessions on the real handlers: every op executed is recorded as a script line together
with the implementation's canonical output, so that the same script can be replayed on the Lean
model (correspondence) and inspected by the oracles."""
from __future__ import annotations

import re

import world
from world import World


def strip_len(pdu: str) -> str:
    return " ".join(x for x in pdu.split() if not x.startswith("len=") and not x.startswith("wire="))


def pdu_kind(pdu: str) -> str:
    return pdu.split(" ", 1)[0]


def pdu_fields(pdu: str) -> dict[str, str]:
    return world.kv(pdu.split()[1:])


def set_field(pdu: str, key: str, val) -> str:
    toks = pdu.split()
    out, done = [], False
    for t in toks:
        if t.startswith(key + "="):
            out.append(f"{key}={val}")
            done = True
        else:
            out.append(t)
    if not done:
        out.append(f"{key}={val}")
    return " ".join(out)


_ST = re.compile(r"st=(\w+)/(\w+) rdy=(\d+) prog=(\d+) fsz=(\S+) tid=(\S+) ctr=(\d+)/(\d+)/(\d+) def=(\d)")


class Status:
    def __init__(self, line: str):
        self.line = line
        self.exc = None
        self.ret = None
        if line.startswith("exc "):
            self.exc = line.split()[1]
        m = re.match(r"ok ret=(\[.*?\]|\S+) ", line)
        if m:
            self.ret = m.group(1)
        m = _ST.search(line)
        self.ok = m is not None
        if m:
            self.state, self.step = m.group(1), m.group(2)
            self.rdy, self.prog = int(m.group(3)), int(m.group(4))
            self.fsz, self.tid = m.group(5), m.group(6)
            self.chk, self.nak, self.ack = int(m.group(7)), int(m.group(8)), int(m.group(9))
            self.deferred = m.group(10) == "1"
        parts = line.split(" | ")
        self.ind = [] if len(parts) < 2 or parts[1] == "ind=-" else split_top(parts[1][4:])
        self.flt = [] if len(parts) < 3 or parts[2] == "flt=-" else split_top(parts[2][4:])
        self.fs = parts[3][3:] if len(parts) >= 4 else "same"

    @property
    def pdu(self) -> str | None:
        if self.ret and self.ret.startswith("["):
            return self.ret[1:-1]
        return None


def split_top(s: str) -> list[str]:
    """split `a(..),b(..)` at top-level commas"""
    out, depth, cur = [], 0, ""
    for ch in s:
        if ch in "([":
            depth += 1
        elif ch in ")]":
            depth -= 1
        if ch == "," and depth == 0:
            out.append(cur)
            cur = ""
        else:
            cur += ch
    if cur:
        out.append(cur)
    return out


class Session:
    def __init__(self, header: list[str], fs_kind: str = "mem"):
        self.header = list(header)
        self.fs_kind = fs_kind
        self.w = World(header, fs_kind)
        self.ops: list[str] = []
        self.out: list[str] = []

    def close(self):
        self.w.close()

    def do(self, line: str) -> Status:
        o = self.w.exec(line)
        self.ops.append(line)
        self.out.append(o)
        return Status(o)

    def sm(self, h: str, pdu: str | None = None) -> Status:
        return self.do(f"sm {h} -" if pdu is None else f"sm {h} pdu {strip_len(pdu)}")

    def get(self, h: str) -> str | None:
        return self.do(f"get {h}").pdu

    def drain(self, h: str) -> list[str]:
        res = []
        while True:
            p = self.get(h)
            if p is None:
                return res
            res.append(p)

    def tick(self, ms: int) -> Status:
        return self.do(f"tick {ms}")

    def script_lines(self) -> list[str]:
        """the full line script for the model driver"""
        return ["W new"] + ["W " + l for l in self.header] + ["W go"] + ["W " + l for l in self.ops]

    def impl_lines(self) -> list[str]:
        return ["ok"] * (len(self.header) + 1) + ["ok go"] + self.out

    def fs_content(self, h: str, path: str) -> bytes | None:
        fs = self.w.fs[h]
        if self.fs_kind == "native":
            p = fs.host(path)
            return p.read_bytes() if p.is_file() else None
        v = fs.t.get(path)
        return v if isinstance(v, bytes) else None


def std_header(*, sid="1/2", did="2/2", mode="A", closure=1, crc=0, cks=3, maxseg="4", maxpkt=64,
               ack="1000/2", nak="1000/2", chkms=1000, chklim=2, imm=1, disp=0, ind_s="1111",
               ind_d="1111", seqbits=16, seqnext=0, files=(), dirs=(), faults_s="", faults_d="",
               dfiles=()) -> list[str]:
    r = (f"maxseg={maxseg} maxpkt={maxpkt} closure={closure} crc={crc} mode={mode} cks={cks} "
         f"ack={ack} nak={nak} imm={imm} disp={disp} chklim={chklim}")
    h = [f"P p {seqbits} {seqnext}",
         f"H S src id={sid} ind={ind_s} chkms={chkms} seqp=p",
         f"H D dst id={did} ind={ind_d} chkms={chkms}",
         f"R S id={did} {r}",
         f"R D id={sid} {r}"]
    if faults_s:
        h.append(f"F S {faults_s}")
    if faults_d:
        h.append(f"F D {faults_d}")
    for p, data in files:
        h.append(f"file S {p} {data.hex() or '-'}")
    for p, data in dfiles:
        h.append(f"file D {p} {data.hex() or '-'}")
    for p in dirs:
        h.append(f"dir D {p}")
    return h
