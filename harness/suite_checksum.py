"""Correspondence suite + independent oracle for the filestore checksums (C09)."""
from __future__ import annotations

import shutil
import struct
import tempfile
import zlib
from pathlib import Path

from common import Rng


def _crc32c_ref(data: bytes) -> int:
    c = 0xFFFFFFFF
    for b in data:
        c ^= b
        for _ in range(8):
            c = (c >> 1) ^ 0x82F63B78 if c & 1 else c >> 1
    return c ^ 0xFFFFFFFF


def reference(t: int, prefix: bytes) -> bytes | None:
    """the property's definition, independent of cfdppy and crcmod"""
    if t == 3:
        return struct.pack("!I", zlib.crc32(prefix) & 0xFFFFFFFF)
    if t == 2:
        return struct.pack("!I", _crc32c_ref(prefix))
    if t == 0:
        s = 0
        for i in range(0, len(prefix), 4):
            s += int.from_bytes(prefix[i:i + 4].ljust(4, b"\0"), "big")
        return struct.pack("!I", s % 2**32)
    if t == 15:
        return bytes(4)
    return None


class Impl:
    def __init__(self):
        self.dir = Path(tempfile.mkdtemp(prefix="cfdpverif-cks-"))
        self.n = 0
        from cfdppy.filestore import NativeFilestore
        self.fs = NativeFilestore()

    def close(self):
        shutil.rmtree(self.dir, ignore_errors=True)

    def file_for(self, data: bytes) -> Path:
        self.n += 1
        p = self.dir / f"f{self.n % 64}"
        p.write_bytes(data)
        return p

    def calc(self, p: Path, t: int, size: int, seg: int) -> str:
        from spacepackets.cfdp import ChecksumType
        try:
            r = self.fs.calculate_checksum(ChecksumType(t), p, size, seg)
            return "ok " + bytes(r).hex()
        except Exception as e:  # noqa: BLE001
            return f"exc {type(e).__name__}"

    def verify(self, p: Path, cks: bytes, t: int, size: int, seg: int) -> str:
        from spacepackets.cfdp import ChecksumType
        try:
            r = self.fs.verify_checksum(cks, ChecksumType(t), p, size, seg)
            return "ok " + ("true" if r else "false")
        except Exception as e:  # noqa: BLE001
            return f"exc {type(e).__name__}"


def gen_data(rng: Rng, thorough: bool) -> list[bytes]:
    out = [b"", b"\x00", b"\xff", b"123456789"]
    for n in range(1, 10):
        out.append(bytes(rng.randrange(256) for _ in range(n)))
    for n in (11, 12, 13, 15, 16, 17, 31, 32, 33, 63, 64, 65):
        out.append(bytes(rng.randrange(256) for _ in range(n)))
    out.append(b"\x00" * 9)
    out.append(b"\xff" * 8)
    for _ in range(30 if thorough else 6):
        out.append(bytes(rng.randrange(256) for _ in range(rng.randrange(66, 700))))
    out.append(bytes(rng.randrange(256) for _ in range(4096 if thorough else 1500)))
    # files of several read blocks (the implementation reads 4096-byte or chunk-length blocks): chunk lengths
    # that do not divide 4096 or exceed it, prefix lengths around the block boundaries
    for n in ((10000, 8193, 20011) if thorough else (10000,)):
        out.append(bytes(rng.randrange(256) for _ in range(n)))
    return out


def cases_for(rng: Rng, data: bytes, thorough: bool):
    """(type, size, seg) triples"""
    n = len(data)
    cases = []
    if n > 5000:
        sizes = sorted({n, n - 1, 4095, 4096, 4097, 8192, 8193, rng.randrange(4097, n)} & set(range(n + 1)))
        segs = [7, 1000, 4095, 4096, 4097, 6000, n + 1, rng.randrange(1, 9000)]
        if not thorough:
            sizes = [n, 4097] + rng.sample(sizes, 2)
        for t in (3, 2):
            for size in sizes:
                for seg in segs:
                    cases.append((t, size, seg))
        for seg in (7, 4097):
            cases.append((0, n, seg))
        return cases
    if n <= 17:
        sizes = list(range(0, n + 3))
        segs = list(range(1, n + 2)) + [4096]
    else:
        sizes = sorted({0, 1, 3, 4, 5, n - 5, n - 4, n - 1, n, n + 1, n + 7} |
                       {rng.randrange(0, n + 1) for _ in range(6 if thorough else 3)})
        sizes = [s for s in sizes if s >= 0]
        segs = sorted({1, 2, 3, 4, 5, 7, 8, 64, 4096, n - 1, n, n + 1} |
                      {rng.randrange(1, n + 2) for _ in range(4 if thorough else 2)})
        segs = [s for s in segs if s >= 1]
        if not thorough:
            segs = rng.sample(segs, min(len(segs), 6))
    for t in (3, 2, 0, 15):
        for size in sizes:
            for seg in (segs if t in (2, 3) else segs[:2]):
                cases.append((t, size, seg))
    # malformed stream: zero chunk length, unsupported type
    for t in (3, 2, 0, 15, 1):
        cases.append((t, min(n, 3), 0))
        cases.append((t, n, 1))
    return cases
