"""C07 — see DESIGN.md §6 and harness/handler_props.py (plan) / oracles.py (oracle)."""
import json

import handler_props as hp
import large_file
from prop_meta import META_ALL

META = META_ALL["C07"]


def run(ctx):
    return hp.check(ctx, "C07", META["level"], META["rule"], META["assumptions"],
                    extra_explore=large_file.explore)


def replay(ctx, path):
    obj = json.load(open(path))
    if obj.get("impl_only"):
        return large_file.replay(ctx, path, obj)
    return hp.replay(ctx, "C07", path)
