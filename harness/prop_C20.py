"""C20 — PDU routing agrees with what each handler accepts."""
from __future__ import annotations

import itertools

import tables
from common import script_hash
from framework import Ctx, decide, lean_stage

LEVEL = "proof"
RULE = ("complete enumeration: PDU kind x acked directive x direction x mode x CRC x large x id width (576 "
        "keys) against get_packet_destination and against state_machine of both handlers in every step "
        "reachable at a call boundary x transmission mode; inactive-EOF helper over condition codes x "
        "status x header configs; non-trivial = key evaluated against a handler prepared in a non-idle step")

SRC_ROUTED = {"fin", "nak", "ka", "ackeof"}
DST_ROUTED = {"fd", "md", "eof", "pr", "ackfin"}
PROTOCOL = set(tables.PROTOCOL_EXC)


def oracle_tables(ctx: Ctx):
    """the property evaluated directly on the implementation's complete tables"""
    for key, r in tables.route_table():
        ctx.evaluations += 1
        want = "DEST_HANDLER" if key[0] in DST_ROUTED else "SOURCE_HANDLER"
        if r != want:
            ctx.fail(f"route:{key[0]}:{r}", {"pdu": tables.pdu_text(key), "routed": r, "expected": want})
    for side, foreign in (("src", "InvalidPduForSourceHandler"), ("dst", "InvalidPduForDestHandler")):
        mine = SRC_ROUTED if side == "src" else DST_ROUTED
        prefix_of = tables.src_prefix if side == "src" else tables.dst_prefix
        for (step, mode, key), verdict, unchanged in tables.admission_table(side):
            ctx.evaluations += 1
            ctx.count(f"{side}:{verdict}")
            if step != "IDLE":
                ctx.distinct.add(script_hash([side, step, mode, str(key)]))
            rep = {"side": side, "handler_mode": mode, "step": step,
                   "prefix_ops": prefix_of(step, mode), "pdu": tables.pdu_text(key),
                   "verdict": verdict, "state_unchanged": unchanged}
            if key[0] in mine:
                if verdict == foreign:
                    ctx.fail(f"{side}:own-pdu-refused-as-foreign:{key[0]}", rep)
            else:
                if verdict == "ok" or verdict not in PROTOCOL:
                    ctx.fail(f"{side}:foreign-pdu-not-refused:{key[0]}:{verdict}", rep)
                elif not unchanged:
                    ctx.fail(f"{side}:foreign-pdu-refusal-changed-state:{key[0]}", rep)
    ctx.exhaustive = True
    ctx.sample({"key": "(kind, dir, mode, crc, large, idw)", "example": tables.pdu_text(tables.all_keys()[37])})


def oracle_inactive_eof(ctx: Ctx):
    import world
    from cfdppy.handler.dest import acknowledge_inactive_eof_pdu
    from spacepackets.cfdp import ConditionCode, Direction
    from spacepackets.cfdp.pdu import DirectiveType, TransactionStatus
    w = world.World([])
    for cond in (0, 1, 4, 5, 6, 7, 10, 15):
        for status in (0, 1, 2, 3):
            for mode, crc, large, wdt in itertools.product("AU", (0, 1), (0, 1), (1, 2, 4, 8)):
                txt = (f"eof dir=R mode={mode} crc={crc} large={large} src=1/{wdt} dst=2/{wdt} "
                       f"seq=3/{wdt} cond={cond} cks=01020304 size=9 floc=-")
                eof = w.build_pdu("D", txt.split())
                ctx.evaluations += 1
                rep = {"eof": txt, "status": status}
                try:
                    ack = acknowledge_inactive_eof_pdu(eof, TransactionStatus(status))
                except ValueError:
                    if status != 1:
                        ctx.fail("inactive-eof:refused-non-active", rep)
                    continue
                except Exception as e:  # noqa: BLE001
                    ctx.fail(f"inactive-eof:raised:{type(e).__name__}", rep)
                    continue
                if status == 1:
                    ctx.fail("inactive-eof:active-accepted", rep)
                    continue
                ok = (ack.directive_code_of_acked_pdu == DirectiveType.EOF_PDU
                      and ack.pdu_header.direction == Direction.TOWARDS_SENDER
                      and int(ack.condition_code_of_acked_pdu) == cond
                      and int(ack.transaction_status) == status
                      and ack.source_entity_id.value == 1 and ack.dest_entity_id.value == 2
                      and ack.transaction_seq_num.value == 3
                      and ack.source_entity_id.byte_len == wdt)
                if not ok:
                    rep["ack"] = w.canon_pdu(ack)
                    ctx.fail("inactive-eof:wrong-ack", rep)
                ctx.distinct.add(script_hash([txt, str(status)]))


def explore(ctx: Ctx):
    oracle_tables(ctx)
    oracle_inactive_eof(ctx)


def search(ctx: Ctx):
    pass  # the tables are complete: explore() already evaluated the whole space on the implementation


def run(ctx: Ctx) -> int:
    changed = tables.write_tables()      # regenerate the Lean definitions from /repo NOW
    ctx.notes.append(f"Gen/Tables.lean regenerated (content changed: {changed})")
    lean = lean_stage(ctx.pid)
    explore(ctx)
    return decide(ctx, lean, LEVEL, search=search, coverage_extra={"rule": RULE},
                  assumptions=["translator harness/tables.py prints what it evaluated",
                               "verdicts do not depend on PDU fields outside the key (covered by the handler "
                               "correspondence suites with random field values)"])


def replay(ctx: Ctx, path: str) -> int:
    """the space is finite and evaluated completely: re-evaluate it and look for the recorded signature"""
    import json
    obj = json.load(open(path))
    sig = obj.get("signature")
    if sig is None or obj.get("kind", "").startswith("proof"):
        print(f"replay {path}: no input recorded ({obj.get('kind')}); theorem/table problem: "
              f"{json.dumps(obj.get('lean_problems', []))[:500]}")
        return 1
    explore(ctx)
    now = sorted({f["sig"] for f in ctx.failures})
    if sig in now:
        print(f"VIOLATION property=C20 replay={path}")
        print("reproduced:", sig)
        return 1
    print(f"not reproduced on the current tree (signatures now: {now[:5]})")
    return 0
