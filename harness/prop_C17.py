"""C17 — native filestore operations match a reference file-system model."""
from __future__ import annotations

import suite_fs as sf
from common import script_hash
from framework import Ctx, decide, lean_stage
from prop_meta import META_ALL

META = META_ALL["C17"]


def _run(ctx: Ctx, seqs, suite: str):
    scripts, impls = [], []
    for seq in seqs:
        io = sf.impl_run(seq)
        ctx.evaluations += 1
        for op in seq:
            ctx.count("op:" + op[0])
        for l in io[1:]:
            ctx.count("res:" + l.split(" | ")[0].split("=")[0].split()[0])
        if any(l.split(" | ")[1] != "-" for l in io):
            ctx.distinct.add(script_hash(sf.model_lines(seq)))
        sig = sf.oracle(seq, io)
        if sig is not None:
            ctx.fail("C17:" + sig, {"ops": [list(o) for o in seq], "impl_trace": io})
        scripts.append(sf.model_lines(seq))
        impls.append(io)
        if len(scripts) >= 5000:
            ctx.correspond(suite, scripts, impls)
            scripts, impls = [], []
    ctx.correspond(suite, scripts, impls)
    if len(ctx.samples) < 3 and seqs:
        ctx.sample([list(o) for o in seqs[0]])


def explore(ctx: Ctx, scale: int):
    rng = ctx.rng
    _run(ctx, [sf.random_seq(rng, rng.randrange(2, 14)) for _ in range(1500 * scale)], "fs-random")
    _run(ctx, [sf.history_seq(rng) for _ in range(400 * scale)], "fs-histories")
    if scale > 1:
        _run(ctx, list(sf.exhaustive(3)), "fs-exhaustive-depth3")
        ctx.exhaustive = True
    else:
        _run(ctx, list(sf.exhaustive(2)), "fs-exhaustive-depth2")
        ctx.exhaustive = True


def run(ctx: Ctx) -> int:
    lean = lean_stage(ctx.pid)
    explore(ctx, 8 if ctx.thorough else 1)
    return decide(ctx, lean, META["level"], search=lambda c: explore(c, 4) if not c.thorough else None,
                  coverage_extra={"rule": META["rule"]}, assumptions=META["assumptions"])


def replay(ctx: Ctx, path: str) -> int:
    import json
    obj = json.load(open(path))
    if "ops" not in obj:
        print("no script in replay:", obj.get("kind"))
        return 1
    seq = [tuple(o) for o in obj["ops"]]
    io = sf.impl_run(seq)
    sig = sf.oracle(seq, io)
    if sig is not None and "C17:" + sig == obj.get("signature"):
        print(f"VIOLATION property=C17 replay={path}")
        return 1
    print("not reproduced:", sig)
    return 0
