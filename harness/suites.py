"""Shared runner for handler-level suites: executes generated sessions on the real code, evaluates
the property oracles on the implementation traces, and sends the very same scripts through the Lean
model driver (correspondence)."""
from __future__ import annotations

import json
import re

import world
from common import script_hash
from framework import Ctx
from link import Cfg
from session import Session, Status
from trace import Trace

BATCH_LINES = 400_000


class Runner:
    def __init__(self, ctx: Ctx, suite: str):
        self.ctx, self.suite = ctx, suite
        self.scripts: list[list[str]] = []
        self.impls: list[list[str]] = []
        self.lines = 0

    def add(self, sess: Session, fails, cfg: Cfg | None = None, extra: dict | None = None,
            nontrivial: bool | None = None) -> Trace | None:
        """register one executed session: correspondence + oracle failures"""
        ctx = self.ctx
        ctx.evaluations += 1
        script, impl = sess.script_lines(), sess.impl_lines()
        if self.suite == "known-findings-corpus":
            # a listed finding may consist of an unparsable PDU: its marker is expected here
            impl = [re.sub(r" wire=BAD:[A-Za-z0-9]+", "", l) for l in impl]
        self.scripts.append(script)
        self.impls.append(impl)
        self.lines += len(script)
        busy = False
        for o in sess.out:
            if o.startswith("exc "):
                ctx.count("exc:" + o.split()[1])
            i = o.find(" st=")
            if i >= 0:
                st = o[i + 4:o.find(" ", i + 4)]
                ctx.count("step:" + st)
                if st.startswith("BUSY"):
                    busy = True
        for op in sess.ops:
            ctx.count("op:" + op.split(" ", 1)[0])
        if extra and "skipped" in extra:
            # a scripted scenario that did not reach its starting point (the session still takes part in the
            # correspondence): counted, so that the evidence shows how many scenarios ran to their end
            ctx.count(f"scenario-skipped:{self.suite}")
        elif extra is not None:
            ctx.count(f"scenario-completed:{self.suite}")
        if busy if nontrivial is None else nontrivial:
            ctx.distinct.add(script_hash(script))
        if len(ctx.samples) < 3:
            ctx.sample({"suite": self.suite, "header": sess.header, "ops": sess.ops[:12]})
        for sig, detail, idx in fails:
            n = len(sess.ops) if idx is None else idx + 1
            ctx.fail(sig, {"suite": self.suite, "fs_kind": sess.fs_kind, "header": sess.header, "ops": sess.ops[:n],
                           "detail": detail, "cfg": cfg.to_json() if cfg is not None else None,
                           "extra": extra or {}, "impl_out_tail": sess.out[max(0, n - 4):n]})
        if self.lines >= BATCH_LINES:
            self.flush()

    def flush(self):
        if self.scripts:
            self.ctx.correspond(self.suite, self.scripts, self.impls)
        self.scripts, self.impls, self.lines = [], [], 0


def replay_session(obj: dict, fs_kind: str | None = None) -> Session:
    """re-execute a recorded script (replay file) on the current tree, on the kind of filestore it was
    recorded on (the library's NativeFilestore in a sandbox, or the harness's in-memory one)"""
    s = Session(obj["header"], fs_kind or obj.get("fs_kind") or "mem")
    for op in obj["ops"]:
        s.do(op)
    return s


def cfg_of(obj: dict) -> Cfg | None:
    c = obj.get("cfg")
    return Cfg.from_json(c) if c else None


def generic_replay(ctx: Ctx, path: str, oracle_fn) -> int:
    """./check Cxx --replay <file>: re-run the recorded script and re-evaluate the oracle"""
    from common import report_violation
    obj = json.load(open(path))
    if "ops" not in obj:
        print(f"replay {path}: no script recorded ({obj.get('kind')}); theorem/correspondence problem: "
              f"{json.dumps(obj.get('lean_problems', []))[:500]}")
        return 1
    s = replay_session(obj)
    try:
        tr = Trace.of_session(s)
        fails = oracle_fn(tr, cfg_of(obj), obj)
    finally:
        s.close()
    sigs = sorted({x[0] for x in fails})
    if obj.get("signature") in sigs or (sigs and obj.get("signature") is None):
        print(f"VIOLATION property={ctx.pid} replay={path}")
        print("reproduced:", obj.get("signature"), json.dumps([x[1] for x in fails if x[0] == obj.get("signature")][:1], default=str)[:600])
        return 1
    print(f"not reproduced on the current tree (signatures now: {sigs})")
    return 0
