"""Per-property meta data shared by the checks (evidence) and by gen_manifest.py (MANIFEST)."""

TB = ("Lean 4.33.0 kernel; axioms propext/Classical.choice/Quot.sound only (audited by #print axioms on "
      "every run); hand-written model tied to /repo's working tree by differential execution on every "
      "run; CPython and spacepackets/crcmod semantics modelled, not verified")

META_ALL = {}


def m(pid, level, rule, text, technique, design_ref, assumptions=()):
    META_ALL[pid] = dict(level=level, rule=rule, text=text, technique=technique, design_ref=design_ref,
                         assumptions=list(assumptions))


m("C07", "proof",
  "undisturbed source sessions (put, then call/drain rounds) over random configurations (id widths, "
  "sequence widths, CRC, checksum type, mode, closure, max_file_segment_len, max_packet_len, file sizes "
  "0..k*seg+r) + fault-free end-to-end sessions; every emitted PDU is also packed, unpacked and its "
  "length compared; non-trivial = a session that reached a busy step",
  "Props/C07.lean proves for the Source model, for every file content/size, segment length and header "
  "configuration: first call = exactly the Metadata PDU with true size/names/checksum type/closure "
  "(C07_metadata_call); by induction on the number of calls, k call/drain rounds emit exactly the next k "
  "tiles, one File Data PDU per call, ascending, file bytes, <= segment length (C07_stream_tiles, "
  "C07_read_len_is_tile, C07_file_data_call); the call after the last tile emits the EOF with file size "
  "and filestore checksum (C07_eof_call, all 16 mode/closure/indication cases); header consistency and "
  "length bounds (C07_header, C07_pdu_headers, C07_file_data_len, C07_eof_ack_len under the explicit "
  "guard). Model tied to the code by differential execution; oracle re-derives the stream independently.",
  "Lean 4 theorems (induction on call count, forward simulation of the FSM) + differential correspondence",
  "§6 C07",
  ["EOF/ACK length bound only under the guard max_packet_len >= header+10|14(+2): see known finding",
   "byte-level encodings not modelled: pack/unpack round trip checked on the implementation"])
m("C08", "proof",
  "source sessions with NAK PDUs (valid, 0-length, inverted, beyond progress, beyond file size, (0,0)) "
  "at every sender step, always draining between calls; non-trivial = session reached a busy step",
  "Props/C08.lean proves: the retransmission loop appends exactly the chunk PDUs (C08_segment_chunks, by "
  "induction on the loop fuel), which tile [a,b) consecutively with the file's bytes, each non-empty and "
  "<= segment length (C08_chunks_tile, C08_chunk_pdus_content); a valid request is served exactly "
  "(C08_valid_request_served), an inverted/out-of-range one raises InvalidNakPdu with the state unchanged "
  "(C08_invalid_request_rejected); (0,0) re-sends the Metadata (C08_metadata_request); resumption "
  "restores the step and touches nothing else (C08_resume, C08_nak_enters_retransmission).",
  "Lean 4 theorems (loop invariant by induction on fuel) + differential correspondence", "§6 C08",
  ["a NAK whose k-th request is invalid: the k-1 earlier requests were already queued (file data only)"])
m("C19", "proof",
  "source sessions with valid, invalid (missing file, unknown destination) and premature put requests, "
  "all request x MIB mode/closure combinations, 8/16/32 bit providers near wrap-around",
  "Props/C19.lean proves for every handler state/request/configuration: a busy handler returns false and "
  "is unchanged (C19_busy_refuses); missing source / unknown destination raise the documented error and "
  "leave the handler idle and reusable (C19_missing_source_refused, C19_unknown_destination_refused, "
  "C19_reusable_after_refusal); mode and closure resolve request-over-MIB (C19_mode_closure_resolution, "
  "C19_resolution_table); segment length = min(configured, max_packet_len - overhead) or refusal "
  "(C19_segment_length, C19_segment_length_refused); a transaction start takes the provider's next value "
  "and advances it (C19_transaction_start, C19_bad_provider_width) and successive values are pairwise "
  "distinct below 2^bits (C19_sequence_numbers_distinct).",
  "Lean 4 theorems (forward simulation of put_request/_transaction_start) + differential correspondence",
  "§6 C19")
m("C17", "translation_validation",
  "operation sequences (create, delete, rename, replace, mkdir, rmdir, truncate, write at offset, read, size, "
  "exists, isdir) over a universe of 8 nested names, offsets 0..12, payloads 0..6 bytes: random sequences of "
  "2..13 ops plus ALL sequences of depth 2 (quick) / 3 (thorough) over a 26-op alphabet, on NativeFilestore in "
  "a fresh sandbox directory; whole-tree snapshot compared with the reference model after every op",
  "The reference model is Model/Fs.lean. Props/C17.lean proves its laws for every tree/path/payload/offset: "
  "finite map with strictly ascending unique paths preserved by every operation (C17_wf_preserved); refused "
  "operations return the unchanged tree, raising ones no tree (C17_refused_unchanged, C17_raising_operations); "
  "success implies the effect and nothing else (C17_create_file, C17_delete_file, C17_write_data); written "
  "data is read back, other bytes untouched, gaps zero-filled, empty writes no-ops (C17_write_read, "
  "C17_write_frame, C17_write_frame_after, C17_write_gap_zero, C17_write_empty). Implementation = model is "
  "checked by differential execution (it cannot be proved: the other half of the implementation is the OS).",
  "Lean 4 laws of the reference model + differential execution against the host file system", "§6 C17",
  ["list_directory not modelled (shells out to ls)", "file_size of a directory is host dependent: not compared",
   "POSIX host semantics (tmpfs/ext4 under /tmp)"])
