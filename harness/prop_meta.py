"""Per-property meta data shared by the checks (evidence) and by gen_manifest.py (MANIFEST)."""

TB = ("Lean 4.33.0 kernel; axioms propext/Classical.choice/Quot.sound only (audited by #print axioms on "
      "every run); hand-written model tied to /repo's working tree by differential execution on every "
      "run; CPython and spacepackets/crcmod semantics modelled, not verified")

META_ALL = {}


def m(pid, level, rule, text, technique, design_ref, assumptions=()):
    META_ALL[pid] = dict(level=level, rule=rule, text=text, technique=technique, design_ref=design_ref,
                         assumptions=list(assumptions))


m("C07", "proof",
  "undisturbed source sessions (put, then call/drain rounds) over random configurations (id widths, "
  "sequence widths, CRC, checksum type, mode, closure, max_file_segment_len, max_packet_len, file sizes "
  "0..k*seg+r) + fault-free end-to-end sessions; every emitted PDU is also packed, unpacked and its "
  "length compared; non-trivial = a session that reached a busy step; plus implementation-only large-file "
  "scenarios (sparse source files at and beyond 2^32-1 bytes in the native sandbox: large flag on every PDU, "
  "true size in the Metadata PDU, PDUs encodable, consecutive offsets)",
  "Props/C07.lean proves for the Source model, for every file content/size, segment length and header "
  "configuration: first call = exactly the Metadata PDU with true size/names/checksum type/closure "
  "(C07_metadata_call); by induction on the number of calls, k call/drain rounds emit exactly the next k "
  "tiles, one File Data PDU per call, ascending, file bytes, <= segment length (C07_stream_tiles, "
  "C07_read_len_is_tile, C07_file_data_call); the call after the last tile emits the EOF with file size "
  "and filestore checksum (C07_eof_call, all 16 mode/closure/indication cases); put together "
  "(C07_whole_stream): 1+k+1 calls emit exactly Metadata ++ the k tiles ++ EOF, the payloads concatenate "
  "to the file, every byte once; an empty file yields exactly Metadata(size 0) and EOF(size 0), never a "
  "File Data PDU (C07_metadata_call_empty, C07_eof_call_empty, C07_whole_stream_empty); a metadata-only "
  "request yields exactly one Metadata PDU without names and nothing after it (C07_metadata_only_call, "
  "C07_metadata_only_second_call); header consistency and "
  "length bounds (C07_header, C07_pdu_headers, C07_file_data_len, C07_eof_ack_len under the explicit "
  "guard). Model tied to the code by differential execution; oracle re-derives the stream independently.",
  "Lean 4 theorems (induction on call count, forward simulation of the FSM) + differential correspondence",
  "§6 C07",
  ["EOF/ACK length bound only under the guard max_packet_len >= header+10|14(+2): see known finding",
   "byte-level encodings not modelled: pack/unpack round trip checked on the implementation",
   "files beyond 2^32-1 bytes: theorem for every file, but the sessions are not replayed on the model (its "
   "driver cannot hold 2^32 bytes): oracle only"])
m("C08", "proof",
  "source sessions with NAK PDUs (valid, 0-length, inverted, beyond progress, beyond file size, (0,0)) "
  "at every sender step, always draining between calls; non-trivial = session reached a busy step",
  "Props/C08.lean proves: the retransmission loop appends exactly the chunk PDUs (C08_segment_chunks, by "
  "induction on the loop fuel), which tile [a,b) consecutively with the file's bytes, each non-empty and "
  "<= segment length (C08_chunks_tile, C08_chunk_pdus_content); a valid request is served exactly "
  "(C08_valid_request_served), an inverted/out-of-range one raises InvalidNakPdu with the state unchanged "
  "(C08_invalid_request_rejected); (0,0) re-sends the Metadata (C08_metadata_request); resumption "
  "restores the step and touches nothing else (C08_resume, C08_nak_enters_retransmission). For a NAK with ANY "
  "NUMBER of requests: the answers to the valid requests are queued in request order and nothing else changes "
  "(C08_request_answered, C08_requests_answered, by induction over the request list); the first invalid request "
  "stops the loop with InvalidNakPdu, earlier answers queued, nothing for it or later ones "
  "(C08_first_invalid_stops); as whole state_machine calls in each step that accepts a NAK - streaming file "
  "data, awaiting the EOF ACK, awaiting Finished - (C08_nak_call, C08_nak_call_invalid); the call after the "
  "retransmission equals that call on the sender as it was before the NAK, for any packet "
  "(C08_resume_call).",
  "Lean 4 theorems (loop invariants by induction on fuel and on the request list) + differential correspondence",
  "§6 C08",
  ["a NAK whose k-th request is invalid: the k-1 earlier requests were already queued (file data only)"])
m("C19", "proof",
  "source sessions with valid, invalid (missing file, unknown destination) and premature put requests, "
  "all request x MIB mode/closure combinations, 8/16/32 bit providers near wrap-around",
  "Props/C19.lean proves for every handler state/request/configuration: a busy handler returns false and "
  "is unchanged (C19_busy_refuses); missing source / unknown destination raise the documented error and "
  "leave the handler idle and reusable (C19_missing_source_refused, C19_unknown_destination_refused, "
  "C19_reusable_after_refusal); mode and closure resolve request-over-MIB (C19_mode_closure_resolution, "
  "C19_resolution_table); segment length = min(configured, max_packet_len - overhead) or refusal "
  "(C19_segment_length, C19_segment_length_refused); a transaction start takes the provider's next value "
  "and advances it (C19_transaction_start, C19_bad_provider_width); a source file that vanished between the "
  "accepted request and the start raises SourceFileDoesNotExist on every call without drawing a number, the "
  "handler staying busy at the transaction start (C19_source_vanished); successive values are pairwise "
  "distinct below 2^bits (C19_sequence_numbers_distinct). For EVERY history of put requests (accepted, "
  "refused, premature), state_machine calls with any PDU, retrievals, cancel requests, resets and "
  "transactions of other handlers sharing the provider: each operation draws at most one number "
  "(C19_seq_step), the handler's transactions got the values of strictly increasing draws "
  "(C19_all_histories_issued; Lemmas/InvSourceSeq.lean: no method but _transaction_start touches the provider "
  "or issues a Transaction indication, Lemmas/SeqSource.lean: relational spec of state_machine), hence with "
  "at most 2^bits draws no two transactions share a sequence number (C19_all_histories_distinct).",
  "Lean 4 theorems (forward simulation of put_request/_transaction_start) + differential correspondence",
  "§6 C19")
m("C17", "translation_validation",
  "operation sequences (create, delete, rename, replace, mkdir, rmdir, truncate, write at offset, read, size, "
  "exists, isdir) over a universe of 8 nested names, offsets 0..12, payloads 0..6 bytes: random sequences of "
  "2..13 ops plus ALL sequences of depth 2 (quick) / 3 (thorough) over a 26-op alphabet, on NativeFilestore in "
  "a fresh sandbox directory; whole-tree snapshot compared with the reference model after every op",
  "The reference model is Model/Fs.lean. Props/C17.lean proves its laws for every tree/path/payload/offset: "
  "finite map with strictly ascending unique paths preserved by every operation (C17_wf_preserved); refused "
  "operations return the unchanged tree, raising ones no tree (C17_refused_unchanged, C17_raising_operations); "
  "success implies the effect and nothing else (C17_create_file, C17_delete_file, C17_write_data); written "
  "data is read back, other bytes untouched, gaps zero-filled, empty writes no-ops (C17_write_read, "
  "C17_write_frame, C17_write_frame_after, C17_write_gap_zero, C17_write_empty). Implementation = model is "
  "checked by differential execution (it cannot be proved: the other half of the implementation is the OS).",
  "Lean 4 laws of the reference model + differential execution against the host file system", "§6 C17",
  ["list_directory not modelled (shells out to ls)", "file_size of a directory is host dependent: not compared",
   "POSIX host semantics (tmpfs/ext4 under /tmp)"])
m("C11", "proof",
  "differential on the implementation: (a) 1-2 history transactions on a source/destination pair (random "
  "modes, fault plans, fault tables, cancel requests; unfinished ones ended with reset()) followed by a "
  "follow-up transaction, whose complete canonical output lines are compared — sequence number renamed, "
  "filestore reduced to the follow-up's destination — with the same follow-up on freshly constructed handlers; "
  "(b) the follow-up while a sibling handler pair of the same process is mid-transaction with lost segments "
  "outstanding vs. alone. All sessions also replayed on the model.",
  "Props/C11.lean proves over the models: every transaction end installs a parameter block equal to a new "
  "handler's (C11_dest_reset_fresh, C11_source_reset_fresh), a transaction start at the receiver re-creates "
  "it regardless of what was left (C11_dest_start_fresh, C11_dest_start_transaction_fresh), an accepted put "
  "request on an idle sender yields a state whose transaction-relevant part is a function of request and "
  "configuration alone (C11_source_put_forgets_history), and an operation on one handler of a world leaves "
  "every other handler object untouched — no field is shared (C11_instances_independent). FOR EVERY HISTORY "
  "(Lemmas/FreshDest.lean, FreshSource.lean: the C10 whole-FSM invariants extended by 'not busy => parameter "
  "block = a new handler's', derived by tools/gen_fresh.py, the mvcgen proofs go through unchanged): after any "
  "sequence of calls, PDUs, cancel requests, resets, fault-table changes and refused writes, an idle handler "
  "has a new handler's parameter block and step (C11_dest_idle_is_fresh_all_histories, "
  "C11_source_idle_is_fresh_all_histories), so the follow-up put request yields exactly what it yields on a "
  "new handler (C11_source_followup_after_any_history). The executable "
  "consequence (same observable trace) is checked differentially on implementation and model.",
  "Lean 4 theorems (reset/fresh-block, whole-FSM invariant for every history, frame over World) + differential "
  "fresh-vs-reused/concurrent", "§6 C11",
  ["what survives a transaction outside the parameter block (residual queue, filestore, fault table, provider, "
   "logs) is carried along by design; trace equality of whole follow-up transactions on the implementation is "
   "checked differentially"])
m("C16", "translation_validation",
  "end-to-end transfers (all modes, closure, checksum types, sizes, fault plans with retransmission, cancel "
  "requests) executed twice on the implementation — on a purely in-memory VirtualFilestore whose paths do not "
  "exist on the host, under an audit of builtins.open/io.open/os.{stat,lstat,open,remove,unlink,mkdir,rmdir,"
  "rename,replace,truncate,listdir,scandir,access} for the script's paths, and on NativeFilestore in a sandbox "
  "— comparing every canonical output line; the in-memory run is also replayed on the model",
  "Props/C16.lean proves over the models that the sender never changes the filestore in any call sequence "
  "(C16_source_read_only, from generated frame lemmas for all 38 sender methods) and that the receiver touches "
  "it at three sites only, each at the resolved destination path (C05 theorems, C16_dest_no_access_before_"
  "metadata). Whether the Python handlers bypass the filestore object they were given cannot be expressed in any "
  "model of the handlers; that is decided by the differential in-memory/native execution with host audit.",
  "Lean 4 frame theorems over the models + differential in-memory vs native execution with host-access audit",
  "§6 C16",
  ["the audit watches the script's paths only; access to unrelated host paths (imports, logging) is not flagged",
   "MemFilestore (harness) mirrors NativeFilestore for the operations the handlers use; it is exercised against "
   "the same sessions as the native one"])
m("C01", "proof",
  "end-to-end sessions with 0..5 link faults (drop, duplicate, delay/reorder, File Data bit flips) and "
  "rejected filestore writes, random pacing, all modes/closure/NAK modes, CRC-32/CRC-32C (null and modular: "
  "loss/duplication/reordering only, acknowledged mode); destination sessions fed by an honest scripted "
  "sender with arbitrary extra and corrupt File Data; oracle: at every success report (receiver indication, "
  "Finished PDU, sender indication with closure/acknowledged) the destination file read from the trace equals "
  "the source file or collides under the negotiated checksum",
  "Props/C01.lean: a success report carries the stored finished parameters; the delivery code can become "
  "Data-complete only through _checksum_verify — every other receiver method preserves 'not complete' from "
  "every state (C01_only_verification_completes, generated frame lemmas); _checksum_verify returns true iff "
  "the filestore checksum of the first `progress` bytes equals the EOF checksum (or null/metadata-only) and "
  "changes neither file nor progress (C01_verify_sound, C01_verify_failure_keeps_incomplete); that checksum is "
  "the CRC of exactly those bytes (C01_verified_is_crc via C09); the sender's report copies the Finished PDU "
  "(C01_source_report_copies_pdu). Every history: the invariant 'Data-complete implies the stored file has the "
  "EOF checksum over the first `progress` bytes, and the handler is then in a step that writes nothing' holds "
  "for a new handler and is preserved by every call of the user, the peer and the filestore (C01_dest_step, "
  "Lemmas/SafeDestC01.lean, Std.Do specifications of every receiver method), hence after any operation list "
  "(C01_dest_complete_means_verified_all_histories).",
  "Lean 4 theorems (every-history invariant, frame lemmas, verification contract) + differential correspondence + fault-schedule search",
  "§6 C01", ["collision = equal negotiated checksum of unequal contents (accepted by the property)"])
m("C02", "proof",
  "fault-free end-to-end sessions over the configuration cross product (mode x closure x checksum type x CRC "
  "flag x id/sequence widths x NAK mode x segment length x max packet length x destination as file/directory x "
  "existing/not) with randomised fair pacing (idle calls, skipped turns, held deliveries, batch sizes); the "
  "clock never advances while PDUs are in flight",
  "Props/C02.lean proves C02_unack_delivery for every file content/size, every cutting into non-empty "
  "consecutive pieces (= the sender's tiles for any segment length, C07_stream_tiles), every admissible header, "
  "checksum type and indication setting: Metadata, tiles in order, EOF — one call each — leave the receiver "
  "idle, the destination file equal to the source file, every other path untouched, exactly one successful "
  "Transaction-Finished, nothing queued, no fault callback, no exception (induction over the tiles with the "
  "invariant `Receiving`). Together with C07 (the sender emits exactly that stream) this is the fault-free "
  "delivery theorem for unacknowledged mode without closure. C02_ack_delivery: the same, with the same "
  "generality, for ACKNOWLEDGED mode (closure flag arbitrary): after the EOF exactly one ACK (EOF) is queued; "
  "the next call verifies the checksum, tells the user, queues exactly one Finished PDU (No error, Data "
  "complete, File retained) and waits; the sender's ACK (Finished) leaves the receiver idle with the file equal "
  "to the source file. The sender's half of the closing handshake: C02_source_eof_acked, C02_source_finished, "
  "C02_source_completion. C02_unack_closure_delivery: unacknowledged mode with closure (one Finished PDU "
  "queued). C02_end_to_end_unack: BOTH MODELS COMPOSED — the sender model is called and drained k+2 times, every "
  "PDU it emits is handed to the receiver model in order: both end idle, destination file byte-identical to the "
  "source file, no call raised, no fault callback (uses C07, C09 chunk-length independence of the checksum, "
  "C17). C02_end_to_end_ack: the same composition in ACKNOWLEDGED mode including the closing handshake "
  "(ACK(EOF), Finished, ACK(Finished) routed between the two models): both idle, file byte-identical, one "
  "successful Transaction-Finished indication on each side, no fault callback, no exception. PACING: "
  "C02_dest_empty_call_noop / C02_source_empty_call_noop — a state_machine() call without a PDU, with nothing "
  "left to retrieve and no timer run out (QuietD / QuietS), changes nothing at all, in every step in which a "
  "handler waits; hence the composed theorems, stated for one call per PDU, hold for every pacing that inserts "
  "empty calls anywhere. Several PDUs handed over between two retrievals are explored (implementation and "
  "model), not proved.",
  "Lean 4 theorems by induction over tiles + forward simulation of the closing handshake (composition of C07 "
  "and the receiver model) + exploration of pacing",
  "§6 C02, §11", ["the composed theorems use one call per PDU plus arbitrary empty calls (no-op theorems); "
                  "several PDUs between two retrievals are exploration-level"])
m("C03", "other",
  "acknowledged-mode end-to-end sessions with K in 1..3 faults (drop, duplicate, delay/reorder of any PDU in "
  "either direction) and all expiration limits > K; after the faults the link is quiet and timers keep "
  "expiring; the harness plays the surrounding entity (acknowledges EOF/Finished of closed transactions)",
  "Safety under any faults is C01. Props/C03.lean proves every recovery mechanism for all states/inputs "
  "(duplicate writes idempotent; EOF before Metadata keeps size and checksum; late Metadata keeps the deferred "
  "procedure running; File Data after EOF without Metadata is ignored) and refers to C04/C06/C08 for NAK "
  "re-issue, exact servicing and resumption. WHOLE-RUN RECOVERY THEOREMS for the receiver model, for every "
  "file, segment length, header configuration and checksum type (deferred NAK mode): "
  "C03_single_loss_recovery — any one File Data PDU but the last never arrives: later data is stored behind a "
  "zero-filled hole, the EOF is acknowledged, the next call queues exactly one NAK with scope (0,|F|) and the "
  "single request (a,b), the retransmission fills the hole, the checksum is verified, one Finished PDU, idle, "
  "file byte-identical; C03_tail_loss_recovery — everything from an offset on is missing at the EOF. "
  "BOTH MODELS COMPOSED: C03_end_to_end_single_loss — the sender model's whole run (Metadata, j+2+r tiles, "
  "EOF), the link loses tile j (any but the last), the receiver model takes the rest, acknowledges the EOF and "
  "requests exactly the lost range; the sender model (waiting for Finished) answers the NAK with exactly one "
  "File Data PDU, equal to the lost one (C03_sender_serves_request); the receiver completes and verifies; the "
  "sender, in its retransmission step, resumes and acknowledges the Finished PDU "
  "(C03_sender_finished_after_retransmission); both idle, no call raises, file byte-identical, one successful "
  "Transaction-Finished indication on each side, no fault callback; a concrete instance shows the hypotheses "
  "are satisfiable. Likewise composed, for every file/segmentation/configuration: C03_end_to_end_eof_loss (EOF "
  "lost; the sender's timer expires, the identical EOF is re-sent and acknowledged), "
  "C03_end_to_end_ack_eof_loss (ACK (EOF) lost; the sender accepts the Finished PDU while still waiting for "
  "that ACK, no timer needed), C03_closing_finished_lost / C03_closing_finished_ack_lost (Finished PDU or its "
  "ACK lost; the receiver's timer expires, the identical Finished PDU is re-sent; stated from any state with "
  "everything sent and the EOF acknowledged (SentAllS, Acked), hence composable with each run above: one "
  "fault before the closing handshake and one in it). C03_end_to_end_naks_lost: a File Data PDU lost and then "
  "any number of NAKs lost below the NAK limit — every expiry re-issues exactly the same NAK (C03_nak_expiries, "
  "induction over the expiry times); C03_end_to_end_retransmission_lost: the retransmission is lost again and "
  "the sender answers the re-issued NAK from its retransmission step. C03_end_to_end_single_loss_immediate: "
  "IMMEDIATE NAK mode — the tile after the lost one makes the receiver queue the NAK at once "
  "(C03_gap_tile_immediate), the sender serves it in the middle of its stream "
  "(C03_sender_serves_request_sending) and resumes (C03_sender_resumes_stream, rounds_resume): all its PDUs "
  "together are exactly those of the undisturbed run; the receiver fills the hole while still receiving "
  "(C03_hole_filled_receiving) and the transfer closes normally. C03_end_to_end_metadata_loss: the METADATA PDU "
  "is lost — the first File Data PDU starts the transaction without a destination (nothing stored, extent "
  "recorded: C03_tiles_without_metadata), the EOF is acknowledged, ONE NAK requests the Metadata (0,0) and the "
  "whole file (0,|F|), the sender answers with exactly the original Metadata PDU followed by exactly the "
  "original tiles (C03_sender_serves_metadata_and_file, chunkPdus_eq_tiles), the receiver creates the "
  "destination (C03_metadata_late), stores the tiles — each shrinks the lost range from its head "
  "(C03_resent_tiles) —, verifies with the last one (C03_resent_last_tile) and completes. "
  "C03_end_to_end_last_tile_loss: the LAST tile (any length up to the segment length) is lost — the EOF reveals "
  "the missing tail, one NAK requests exactly [n*seg, |F|), the sender answers with exactly the lost tile "
  "(C03_sender_serves_short_request, C03_recovery_from_waiting_short); with C03_end_to_end_single_loss: any one "
  "File Data PDU, whatever its position. Building blocks are stated from states "
  "(C03_prefix_single_loss, C03_recovery_from_waiting, C03_closing*), so they compose. The "
  "liveness claim for arbitrary <= K fault schedules (recovery within the limits) is NOT a theorem: it is "
  "explored on implementation and model — exhaustively for every schedule of one or two dropped PDUs per "
  "configuration, sampled for <= 3 mixed faults.",
  "ANY LOSS PATTERN OF FILE DATA PDUs, receiver side (deferred NAK mode): RecvG/WaitG with the grid invariant "
  "TInv of C06; whole state_machine calls for a File Data PDU of any tile in any history (C03_tile_any, "
  "C03_receiver_any_history), the EOF (C03_eof_any), the deferred start (C03_deferred_any: the NAK sequence "
  "requests exactly the undelivered bytes), retransmitted tiles in any order (C03_resent_tile_any, "
  "C03_wait_any_history) and the one that delivers the last missing byte (C03_last_resent_tile_any, "
  "C03_last_tile_completes); composed in C03_receiver_recovers_any_loss; the sender's answers to grid-aligned "
  "requests are exactly those tiles (C03_answer_is_tiles). BOTH MODELS COMPOSED for any loss pattern "
  "(C03_end_to_end_any_loss): the sender's stream, any sub-multiset of the tiles arriving in any order with at "
  "least one never, EOF, ACK, one NAK requesting exactly the undelivered bytes, the sender's answer = exactly the "
  "missing tiles (C03_sender_answers_nak, ansTiles_spec), completion at the tile delivering the last missing byte "
  "(C03_receiver_recovers_any_loss_all), Finished/ACK, both idle, file identical. EITHER NAK MODE from the EOF "
  "on (RecvG/WaitG are mode-independent: lsh_below; C03_receiver_recovers_from, C03_wait_recovers); immediate "
  "mode while the data arrives (C03_tile_any_immediate, C03_receiver_any_history_immediate: each immediate NAK "
  "requests exactly a gap nobody delivered) and with all immediate NAKs lost "
  "(C03_receiver_recovers_any_loss_immediate); the NAK SEQUENCE LOST at k < limit consecutive expiries, "
  "re-issued identically each time, then recovery (C03_nak_expiry_any, C03_nak_expiries_any, "
  "C03_receiver_recovers_naks_lost). "
  "Lean 4 theorems (recovery mechanisms for all states; whole-run recovery from one loss by forward simulation "
  "+ list lemmas on the file with a hole) + exhaustive <=2-drop and sampled fault-schedule exploration "
  "(general liveness not proved)", "§6 C03, §11",
  ["liveness under an adversarial link with K > 1 faults / duplication / reordering is explored, not proved "
   "(DESIGN.md §6 C03 stage 4); the proved recovery runs are for one lost File Data PDU (deferred NAK mode), a lost EOF, ACK (EOF), "
   "Finished, ACK (Finished), NAK (any number below the limit) or retransmitted PDU, one PDU per call, and for a lost Metadata "
   "PDU (deferred mode), and - receiver side - for any loss/duplication/reordering pattern of File Data PDUs with the "
   "control PDUs delivered (deferred mode); combinations of several lost control PDUs, and immediate-mode losses other "
   "than one File Data PDU, are exploration-level"])
m("C04", "proof",
  "silent-peer scenarios for the three retry procedures with limits 1..4 and intervals 500..2000 ms: calls "
  "one ms before each expiry (nothing may happen), exactly at it; the awaited ACK after j < N expiries; exact "
  "count of re-sent PDUs, the expiry at which the limit fault fires, the cancel exchange and the abandon at 2N; "
  "half-silent link at the receiver (the sender's EOF re-delivered between expiries: exactly one ACK (EOF), "
  "counter and expiry schedule unchanged)",
  "Props/C04.lean proves for each procedure and every state: no activity before the expiry; an expiry below "
  "the limit re-sends exactly one EOF / one Finished / the whole NAK sequence and adds one to the counter; an "
  "expiry at the limit declares the limit fault and re-sends nothing; progress resets; a limit fault during the "
  "cancel exchange abandons (with C14); C04_expiry_count: the fault falls on expiry number limit - c, for a "
  "fresh procedure the limit-th; a re-received EOF is not progress (C04_dest_eof_again_not_progress); the arrival of the re-requested "
  "Metadata PDU is progress and issues nothing (C04_metadata_arrival_is_progress, C04_metadata_arrival_issues_nothing). "
  "FOR EVERY CALL SEQUENCE (generated whole-FSM invariants Lemmas/InvSourceBound.lean, InvDestBound.lean): the "
  "sender's EOF retry counter and the receiver's NAK retry counter satisfy counter+1 <= limit, whatever the fault "
  "handlers and whatever arrives in between (C04_source_counter_below_limit_all_histories, "
  "C04_dest_nak_counter_below_limit_all_histories): at most limit-1 re-sends per procedure. "
  "ITERATION OVER TIME, by induction on the list of expiry times (any times at "
  "which the restarted timer has run out, PDUs retrieved in between): k expiries below the limit re-send "
  "exactly k PDUs (EOF / Finished / NAK sequence), add exactly k to the counter and change nothing else "
  "(C04_source_expiries_below_limit, C04_dest_expiries_below_limit, C04_nak_expiries_below_limit); the limit "
  "fault is declared exactly at the N-th consecutive expiry, never earlier or later "
  "(C04_*_limit_exactly_at_Nth); and C04_dest_silent_peer_idle_after_2N: with the default table a receiver "
  "whose peer is silent re-sends N-1 times, cancels at the N-th expiry (nested call queues the Finished "
  "(cancel) PDU and restarts the procedure, C04_dest_cancel_completes), re-sends N-1 times, abandons at the "
  "N-th: idle, exactly 2(N-1)+1 PDUs after the original, none afterwards. "
  "Likewise the SENDER (C04_source_silent_peer_idle_after_2N, with C04_source_limit_fault_cancels): N-1 identical "
  "copies of the EOF, the N-th expiry cancels (one EOF with condition Positive ACK Limit Reached, same size field "
  "and same checksum - the bytes sent have not changed), N-1 identical copies of that PDU, the N-th expiry "
  "abandons: idle. Half-silent link at the sender: a NAK served while the EOF awaits its ACK is not progress - "
  "Metadata / File Data PDUs only, no EOF, positive ACK timer and counter untouched "
  "(C04_source_served_nak_not_progress, from C08_nak_call).",
  "Lean 4 theorems (one-step contracts + induction over expiry times + composition to the 2N bound) + "
  "scenario enumeration",
  "§6 C04, §11", ["the 2N composition is proved for the receiver's Finished procedure and for the sender's EOF "
                  "procedure (C04_dest_silent_peer_idle_after_2N, C04_source_silent_peer_idle_after_2N); for the "
                  "NAK procedure the N-th-expiry theorem is proved and the hand-over to the cancellation exchange "
                  "(Finished (cancel) with its own positive ACK procedure) is C04_dest_cancel_completes + the "
                  "receiver's 2N theorem from there"])
m("C05", "proof",
  "destination sessions with arbitrary File Data (any offsets, overlaps, duplicates, beyond EOF, before "
  "Metadata), EOFs anywhere, cancel requests, rejected writes, several transactions per handler, random fault "
  "tables; faulty end-to-end sessions; oracle: an independent write-model of the accepted File Data vs. the "
  "filestore snapshot after every call, and no other path touched",
  "Props/C05.lean: all receiver methods except three sites leave the filestore unchanged from every state "
  "(C05_no_write_outside_three_sites, C05_fd_before_metadata_not_written; generated frame lemmas); Metadata "
  "resolves the path and leaves an empty file, nothing else changes (C05_metadata_creates_or_truncates); a File "
  "Data PDU changes the filestore not at all or exactly by writeBytes at its offset in the destination file, "
  "whatever else the call does (C05_file_data_applies_write_model, Hoare-style over the whole _handle_fd_pdu); "
  "byte-level meaning of writeBytes in C17. EVERY STATE, EVERY INPUT, EVERY HISTORY (Hoare triples over every "
  "receiver method, Lemmas/PathFrameDest.lean and Lemmas/EffectDest.lean): C05_untouched_path_all_histories — "
  "from any state in which q is not the destination path (a new handler in particular), after any sequence of "
  "operations of any kind (any PDUs, timers, cancel, reset, fault table changes, rejected writes), returned or "
  "raised, a path q that no Metadata PDU named as destination (nor as the directory that resolves to it) has "
  "exactly its initial content; C05_call_effect / C05_op_effect / C05_file_data_effect — for every state and "
  "packet, what one call can leave at any path is: what was there; nothing (disposition delete); the old "
  "content with exactly this call's File Data payload written at exactly its offset; an empty file if this "
  "call's packet is a Metadata PDU — no other bytes, offset, second write or truncation; C05_wf_all_histories; "
  "C05_history_effect — FOLDED OVER EVERY HISTORY: for any sequence of operations from any well-formed state and "
  "every path, the final content is reached from the initial one by one such step per operation, in order "
  "(Reach); C05_complete_file_not_discarded — the only deletion site leaves the filestore alone unless the "
  "transaction was cancelled, the disposition is configured AND the delivery is incomplete; "
  "C05_history_without_data — a history without File Data and Metadata PDUs leaves every file as it was "
  "or deletes it.",
  "Lean 4 theorems (Hoare triples over every method of the receiver: every-history frame and per-call write "
  "model; frame lemmas) + differential write-model oracle",
  "§6 C05, §11.3b", ["which of the allowed alternatives a call takes (written or not: step, lost-segment "
                     "bookkeeping, injected rejections) is decided by the model and checked against the code by "
                     "the correspondence and the write-model oracle, not stated in the fold theorem"])
m("C06", "proof",
  "acknowledged-mode destination sessions on grid-segmented files: tiles permuted, lost, duplicated, late; "
  "Metadata and EOF at any position; immediate and deferred mode; max_packet_len forcing multi-PDU sequences; "
  "NAK timer expiries; scripted sender answering NAKs; oracle: independent interval model of stored bytes",
  "Props/C06.lean: the deferred NAK sequence requests exactly (0,0)-iff-metadata-missing followed by the "
  "tracker's ranges, each once (C06_nak_sequence_exact); each PDU has scope (0, EOF size), 1..m requests and an "
  "encoded length <= max_packet_len (C06_nak_sequence_pdus, C06_nak_len); nothing missing => no NAK, completion "
  "(C06_nothing_missing); the immediate NAK requests exactly the gap (C06_immediate_nak, "
  "C06_no_nak_without_gap). EVERY ARRIVAL HISTORY over the tiles of a segment grid (any order, losses, "
  "duplicates; then the EOF; then retransmissions in any order): the tracker is well-formed and lists exactly "
  "the bytes below the in-order marker / of [0,size) that no PDU delivered (C06_tracker_exact_all_histories, "
  "C06_tracker_exact_after_eof; invariant TInv of Lemmas/TrackerGrid.lean, which also shows that on a grid no "
  "removal is ever refused), tied to the handler method by method (C06_lost_segment_handling_is_tile for every "
  "state, C06_feed_is_tiles, C06_no_error_eof_tail, C06_deferred_first_issue); hence the deferred NAK "
  "sequence requests exactly the missing bytes, ascending, non-empty, and is empty iff nothing is missing "
  "(C06_nak_requests_exactly_missing) and the immediate NAK requests only bytes nobody delivered, inside the "
  "known extent (C06_immediate_nak_only_missing).",
  "Lean 4 theorems (induction over the request-splitting loop; invariant by induction over arrival histories) "
  "+ interval-model oracle", "§6 C06",
  ["late Metadata seeds the tracker differently (composed for one lost Metadata PDU in C03): covered by the "
   "interval oracle, not by the every-history theorem",
   "file data refused by the filestore: the tracker is updated before the write"])
m("C10", "proof",
  "malformed stream: every PDU type with arbitrary field values, ids, widths, directions against both "
  "handlers in every step reached by interrupted (possibly faulty) transfers; put/cancel requests and time "
  "steps interleaved; default fault handlers; plus the destination/source/link suites",
  "Props/C10.lean proves for every state and PDU: the admission checks are side-effect free and a rejected PDU "
  "leaves the entire handler state unchanged (C10_dest_rejected_pdu_changes_nothing, C10_source_..., via "
  "ReadOnly combinators); the receiver's packets-ready counter equals the queue length after every call "
  "sequence (C10_dest_counter_is_queue_length, generated whole-FSM invariant), so the UnretrievedPdus guards "
  "fire only with PDUs really queued (C10_dest_unretrieved_guard, C10_source_unretrieved_guard). NO INTERNAL "
  "ERROR FOR EVERY HISTORY: Dest.Safe.DInv / Source.Safe.SInv are invariants of the two state machines (true "
  "of a new handler, preserved by every public call whether it returns or raises, by set_handler, by injected "
  "write rejections, by other users of the sequence number provider), and from a state satisfying them no "
  "public call raises an assertion, attribute, type, key, value or struct error "
  "(C10_dest_no_internal_error_all_histories, C10_source_no_internal_error_all_histories; one Hoare triple per "
  "model method in Lemmas/SafeDest.lean and Lemmas/SafeSource.lean, Std.Do verification conditions closed by "
  "grind). Hypotheses, each the trace of a listed finding or of the property's own scope: a NAK with the inbound "
  "PDU's header fits max_packet_len (Fits), the derived file segment length exists and is positive (SegFits), a "
  "put request names source and destination file together (ReqOk), injected filestore failures are OSErrors.",
  "Lean 4 theorems (Hoare triples over every model method: invariant + no internal error for all histories; "
  "read-only admission; whole-FSM counter invariant) + malformed-stream exploration", "§6 C10, §11",
  ["the model raises at every assert / None dereference / ValueError site of the Python; that correspondence is "
   "checked by differential execution, not proved",
   "Fits / SegFits / ReqOk hypotheses (outside them: listed finding nak-base-exceeds-max-packet-len; ValueError of "
   "_calculate_max_file_seg_len; AttributeError for a put request with only one file name)",
   "filestore exceptions (FileNotFoundError etc. of a user-supplied filestore) are not internal errors in the "
   "theorem; the oracle flags them on the default filestores"])
m("C12", "proof",
  "cancel requests with right and wrong transaction ids injected at random points of end-to-end sessions and "
  "of single-handler sessions, all modes/closure/disposition settings; EOF (cancel) PDUs from the scripted sender",
  "Props/C12.lean proves for every handler state: cancel_request returns false for an idle handler or another "
  "id and changes nothing, raises with PDUs queued; a matching cancel at the receiver marks the transaction "
  "cancelled with the local entity as fault location; completion deletes the incomplete file iff disposition-"
  "on-cancellation and reports exactly the stored parameters, which the Finished PDU repeats; an EOF (cancel) "
  "finishes with the EOF's condition and the sender as fault location; a matching cancel at the sender queues "
  "as next PDU the EOF (cancel) with size = progress and the checksum of exactly that prefix, is idle at once "
  "(unacknowledged) or awaits the ACK; a second cancel abandons. BOTH MODELS COMPOSED, for every file, "
  "segment length, number of tiles sent before the cancel, configuration and checksum type: "
  "C12_end_to_end_cancel_unack and C12_end_to_end_cancel_ack — the sender's run (Metadata, m tiles), the cancel "
  "request (true; next PDU = EOF (Cancel request received, size m*seg, checksum of exactly that prefix); no "
  "further file data), the receiver's completion (Transaction-Finished with the cancel condition, the sender "
  "as fault location, Data incomplete; the file deleted exactly when disposition-on-cancellation is "
  "configured), in acknowledged mode the ACK (EOF), the Finished (cancel) PDU carrying those values back, the "
  "sender's report of the same values and both idle. Concrete instances show the hypotheses are satisfiable.",
  "Lean 4 theorems (forward simulation of the cancel paths; composition of both models) + differential "
  "correspondence", "§6 C12, §11.3b")
m("C13", "proof",
  "unacknowledged destination scenarios: EOF ahead of any non-empty subset of tiles, each late tile arriving "
  "before a chosen check-timer expiry or never, limits 1..4, calls one ms before each expiry; sender closure "
  "check timer; CRC-32/CRC-32C",
  "Props/C13.lean proves: EOF with a mismatching file enters check-limit handling (fresh timer, counter 0) "
  "without finishing (C13_eof_early_waits); nothing before the expiry; at an expiry with the announced checksum "
  "the transfer completes in that call (C13_expiry_success); otherwise counter+1 / timer restart below the "
  "limit and Check-limit-reached exactly at counter+1 >= limit, ending incomplete (C13_expiry_retry, "
  "C13_expiry_limit, C13_limit_reports_incomplete); the sender's check timer (C13_source_closure_timer). "
  "WHOLE RUNS of the receiver model (unacknowledged, closure requested or not), for every file, segment length, position of "
  "the late tile (any but the last), configuration, CRC type, check limit and expiry times: "
  "C13_late_data_completes — Metadata, all tiles but one, EOF (no completion; timer started, counter 0), any "
  "number of expiries below the limit (each only counts: C13_expiries_below_limit, induction over the expiry "
  "times), the late tile, the next expiry: complete, file byte-identical, exactly one successful "
  "Transaction-Finished, idle, no Check limit fault; C13_never_arrives_limit — the first limit-1 expiries only "
  "count, the limit-th declares Check limit reached, cancelled and reported Data incomplete, idle; with closure "
  "exactly one Finished PDU carrying the reported values is queued in the completing call. ANY ARRIVAL PATTERN "
  "(C13_any_pattern_completes): after the Metadata any history of tiles (any order, losses, duplicates), the "
  "EOF overtaking the rest, any number of idle expiries below the limit, then the remaining tiles in any order "
  "(any again) while the timer runs, the next expiry completes — from whole-call lemmas for any tile in either "
  "step (C13_tile_any, C13_late_tile_any), the EOF (C13_eof_waits_any) and retries (C13_expiry_retry_any, "
  "C13_expiries_below_limit_any). Concrete instances show the hypotheses are satisfiable.",
  "Lean 4 theorems (one-step contracts, whole calls, induction over expiry times, whole-run composition) + "
  "scenario enumeration", "§6 C13",
  ["whole-run theorems assume the stored content's checksum differs from the announced one while data is "
   "missing (no collision); late PDUs arriving in several groups separated by expiries, and the sender side, "
   "are one-step contracts + scenario exploration"])
m("C14", "proof",
  "destination, source and end-to-end sessions with random fault-handler tables (cancel/ignore/abandon/"
  "suspend for each declarable condition), sethandler ops, faulty links, rejected writes, cancel requests",
  "Props/C14.lean proves for every state and condition: set_handler refuses exactly the conditions outside the "
  "table and changes one entry (C14_set_handler, C14_default_table_conditions); ignore/suspend = one callback of "
  "that kind, nothing else (C14_dest_ignore, C14_source_ignore); cancel = one callback, transaction cancelled "
  "with that condition (C14_dest_cancel, C14_source_cancel); abandon = one callback, handler idle "
  "(C14_dest_abandon, C14_source_abandon); the C04 carve-out (C14_*_fault_in_cancel_exchange); no callback "
  "without a transaction id (C14_*_no_callback_without_tid). FOR EVERY HISTORY: while the table is T, after any "
  "sequence of public calls with any PDUs, returning or raising, every fault callback delivered is of the kind "
  "T configures for its condition (or the abandon of the cancellation-exchange rule) — no other callback kind "
  "ever fires (C14_dest_callbacks_follow_table, C14_source_callbacks_follow_table: whole-FSM invariant, "
  "generated lemmas for every model method, Lemmas/Inv*Faults.lean).",
  "Lean 4 theorems (dispatch of _declare_fault over the table; whole-FSM invariant over every call sequence) + "
  "differential correspondence", "§6 C14, §11")
m("C15", "proof",
  "all suites with random indication switches (2^4 settings per side), message-to-user lists incl. "
  "originating-id and proxy-put-response messages, faulty and cancelled transfers",
  "Props/C15.lean proves gating for EVERY call sequence and every PDU on both sides (C15_dest_gating, "
  "C15_source_gating: every method of the models preserves 'only enabled indications delivered', generated "
  "invariants), parameter faithfulness at the emission sites (C15_segment_recv_params, "
  "C15_finished_matches_pdu) and the originating-id rule (C15_originating_id). Causal order at the sender "
  "for EVERY call sequence (C15_source_order, generated invariant OrdOk over every method): every EOF-Sent and "
  "Transaction-Finished indication is for the transaction opened by the latest Transaction indication and not "
  "yet finished (C15_source_order_meaning, C15_source_finished_has_tid). Causal order at the RECEIVER for every "
  "state, input and history (C15_dest_call_in_order, C15_dest_other_calls_in_order, "
  "C15_dest_order_all_histories; Lemmas/IndPhase*.lean + generated InvDestPhaseN/C): what a call adds to the "
  "log is Metadata-Recv / File-Segment-Recv / EOF-Recv indications followed by Transaction-Finished ones, never "
  "the reverse; a call that issues Transaction-Finished leaves the handler in the completion phase "
  "(TRANSFER_COMPLETION, SENDING_FINISHED_PDU, WAITING_FOR_FINISHED_ACK) or idle; from that phase every call, "
  "whatever arrives, issues nothing but (further) Transaction-Finished indications and stays in the phase until "
  "idle - within a transaction nothing follows Transaction-Finished but Transaction-Finished (a second one is "
  "issued when the positive ACK limit fault cancels the already completed transaction: model and code agree).",
  "Lean 4 whole-FSM invariants (generated Preserves lemmas) + differential correspondence", "§6 C15",
  ["the relative order of Metadata-Recv, File-Segment-Recv and EOF-Recv follows the arrival order of the PDUs "
   "(a link may reorder them): no order among them is claimed or checked"])
