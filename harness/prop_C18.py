"""C18 — lost-segment bookkeeping refines an exact interval set."""
from __future__ import annotations

import suite_tracker as st
from common import script_hash
from framework import Ctx, decide, lean_stage

LEVEL = "proof"
RULE = ("op sequences on a fresh LostSegmentTracker (add/rm/co/reset over small offsets): exhaustive "
        "small scopes incl. malformed ops + random precondition-respecting and malformed streams; a "
        "case is non-trivial if it is a distinct sequence in which at least one op changed the listing")


def _run_batch(ctx: Ctx, seqs, suite: str):
    scripts, impls = [], []
    for seq in seqs:
        io = st.impl_run(seq)
        ctx.evaluations += 1
        for op in seq:
            ctx.count("op:" + op[0])
        if any("exc" in l for l in io):
            ctx.count("seq-with-ValueError")
        if len(set(l.split(" ", 1)[-1] for l in io)) > 1:
            ctx.distinct.add(script_hash(st.model_lines(seq)))
        sig = st.oracle(seq)
        if sig is not None:
            ctx.fail(sig, {"ops": [list(o) for o in seq], "impl_trace": io})
        scripts.append(st.model_lines(seq))
        impls.append(io)
        if len(scripts) >= 20000:
            ctx.correspond(suite, scripts, impls)
            scripts, impls = [], []
    ctx.correspond(suite, scripts, impls)


def explore(ctx: Ctx, big: bool):
    rng = ctx.rng
    if big:
        _run_batch(ctx, st.exhaustive(4, 4, True), "tracker-exhaustive-N4-d4")
        _run_batch(ctx, st.exhaustive(3, 5, False), "tracker-exhaustive-valid-N3-d5")
        n_rand, n_mal = 40000, 20000
    else:
        _run_batch(ctx, st.exhaustive(2, 3, True), "tracker-exhaustive-N2-d3")
        _run_batch(ctx, st.exhaustive(3, 3, False), "tracker-exhaustive-valid-N3-d3")
        n_rand, n_mal = 3000, 1500
    ctx.exhaustive = True
    seqs = [st.random_valid(rng, 24, rng.randrange(3, 14)) for _ in range(n_rand)]
    for s in seqs[:3]:
        ctx.sample([list(o) for o in s])
    _run_batch(ctx, seqs, "tracker-random-valid")
    _run_batch(ctx, [st.random_malformed(rng, 12, rng.randrange(2, 10)) for _ in range(n_mal)],
               "tracker-random-malformed")


def search(ctx: Ctx):
    # proof or tie broke: deepen the exploration of the implementation with the oracle
    explore(ctx, True)


def run(ctx: Ctx) -> int:
    lean = lean_stage(ctx.pid)
    explore(ctx, ctx.thorough)
    return decide(ctx, lean, LEVEL, search=search, coverage_extra={"rule": RULE},
                  assumptions=["CPython dict/sorted semantics as modelled by key-sorted listings"])


def replay(ctx: Ctx, path: str) -> int:
    import json
    obj = json.load(open(path))
    if "ops" not in obj:
        print(f"replay {path}: no op sequence recorded ({obj.get('kind')}); theorem/correspondence problem: "
              f"{json.dumps(obj.get('lean_problems', []))[:500]}")
        return 1
    seq = [tuple(o) for o in obj["ops"]]
    sig = st.oracle(seq)
    if sig is not None:
        print(f"VIOLATION property=C18 replay={path}")
        print("reproduced:", sig, st.impl_run(seq)[-3:])
        return 1
    print("not reproduced on the current tree")
    return 0
