"""C16 — all file access goes through the user-supplied virtual filestore."""
from __future__ import annotations

import builtins
import re
import io
import os

import gen_handlers as g
import oracles as o
from common import Rng
from framework import Ctx
from link import Cfg, Link, Pacing, rand_cfg, rand_plan, plan_text
from prop_meta import META_ALL
from session import Session
from trace import Trace

META = META_ALL["C16"]

_PATCHED = ["stat", "lstat", "open", "remove", "unlink", "mkdir", "rmdir", "rename", "replace", "truncate",
            "listdir", "scandir", "access"]


class HostAudit:
    """records every host file-system call that names one of the watched (script) paths"""

    def __init__(self, watched: set[str]):
        self.watched = {os.path.normpath(p) for p in watched}
        self.hits: list[str] = []
        self._saved = {}

    def _wrap(self, name, fn):
        def w(*a, **k):
            for x in list(a[:2]) + [k.get("path"), k.get("file"), k.get("src"), k.get("dst")]:
                if isinstance(x, (str, bytes, os.PathLike)):
                    try:
                        p = os.path.normpath(os.fspath(x))
                    except TypeError:
                        continue
                    if isinstance(p, bytes):
                        p = p.decode(errors="replace")
                    if p in self.watched:
                        self.hits.append(f"{name}({p})")
            return fn(*a, **k)
        return w

    def __enter__(self):
        for n in _PATCHED:
            if hasattr(os, n):
                self._saved[("os", n)] = getattr(os, n)
                setattr(os, n, self._wrap("os." + n, getattr(os, n)))
        self._saved[("builtins", "open")] = builtins.open
        builtins.open = self._wrap("open", builtins.open)
        self._saved[("io", "open")] = io.open
        io.open = self._wrap("io.open", io.open)
        return self

    def __exit__(self, *exc):
        for (m, n), fn in self._saved.items():
            setattr({"os": os, "builtins": builtins, "io": io}[m], n, fn)
        return False


def script_paths(c: Cfg) -> set[str]:
    ps = {c.src_path, c.dst_path, c.expected_dest_path()}
    ps |= {p for p, _ in c.dfiles} | set(c.dirs_d)
    return {p for p in ps if p not in ("/",)}


def one_case(rng: Rng):
    c = rand_cfg(rng)
    if rng.chance(0.5):
        c.mode, c.put_mode = "A", "-"          # retransmission and cancel-time checksums need ack mode
    k = rng.randrange(0, 4)
    kinds = ("drop", "dup", "delay") if c.cks in (0, 15) else ("drop", "dup", "delay", "flip")
    n_sd = 3 + len(c.data) // max(1, c.seg_len)
    plan = rand_plan(rng, k, n_sd + 1, 4, kinds) if k else {}
    cancel = rng.chance(0.2)
    seed = rng.randrange(1 << 30)
    watched = script_paths(c)
    pre_exist = {p for p in watched if os.path.lexists(p)}

    def build(kind: str) -> Link:
        l = g.link_session(Rng(seed), 0, fs_kind=kind, cfg=Cfg.from_json(c.to_json()), cancel=cancel)
        l.plan = dict(plan)
        return l
    fails = o.Fails()
    with HostAudit(watched) as audit:
        lm = build("mem")
        rm_ = lm.run()
    ln = build("native")
    rn = ln.run()
    a, b = lm.sess.out, ln.sess.out
    if lm.sess.ops != ln.sess.ops or a != b:
        i = next((j for j, (x, y) in enumerate(zip(a, b)) if x != y), min(len(a), len(b)))
        exc = ""
        if i < len(a) and a[i].startswith("exc "):
            exc = ":" + a[i].split()[1]
        fails.add(f"C16:in-memory-filestore-behaves-differently{exc}",
                  {"at": i, "op": lm.sess.ops[i][:200] if i < len(lm.sess.ops) else None,
                   "mem": a[i][:300] if i < len(a) else None, "native": b[i][:300] if i < len(b) else None}, i)
    if audit.hits:
        fails.add("C16:host-file-system-accessed:" + audit.hits[0].split("(")[0],
                  {"calls": audit.hits[:6]}, None)
    appeared = {p for p in watched if os.path.lexists(p)} - pre_exist
    if appeared:
        fails.add("C16:host-path-created", {"paths": sorted(appeared)}, None)
        for p in appeared:
            try:
                os.remove(p)
            except OSError:
                pass
    ln.close()
    return lm.sess, fails, c, {"plan": plan_text(plan), "stuck_mem": rm_.stuck, "stuck_native": rn.stuck}


PLANS = {"C16": [("mem-vs-native-with-audit", 700, one_case)]}


def run(ctx: Ctx) -> int:
    import handler_props as hp
    return hp.check(ctx, "C16", META["level"], META["rule"], META["assumptions"], plans=PLANS)


def replay(ctx: Ctx, path: str) -> int:
    import json
    from suites import replay_session
    obj = json.load(open(path))
    if "ops" not in obj:
        print("no script in replay:", obj.get("kind"), str(obj.get("lean_problems"))[:300])
        return 1
    c = Cfg.from_json(obj["cfg"])
    with HostAudit(script_paths(c)) as audit:
        m = replay_session(obj, "mem")
    n = replay_session(obj, "native")
    bad = m.out != n.out or bool(audit.hits)
    m.close(); n.close()
    print("mem   :", m.out[-1][:300]); print("native:", n.out[-1][:300]); print("audit :", audit.hits[:4])
    if bad:
        print(f"VIOLATION property=C16 replay={path}")
        return 1
    print("not reproduced")
    return 0
