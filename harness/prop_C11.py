"""C11 — transactions are isolated from earlier transactions and other handler instances.
Differential on the implementation (fresh vs reused / concurrent), plus model correspondence and the
theorems of Props/C11.lean."""
from __future__ import annotations

import re

import gen_handlers as g
import oracles as o
from common import Rng
from framework import Ctx, decide, lean_stage
from link import Cfg, Link, Pacing, header_with_parent_dirs, rand_bytes, rand_cfg, rand_plan
from prop_meta import META_ALL
from session import Session
from suites import Runner
from trace import parse_fs

META = META_ALL["C11"]
T_SRC, T_DST = "/t.bin", "/t_out.bin"


def norm(lines: list[str], dst_path: str, first_seq: int, bits: int) -> list[str]:
    """observable behaviour of the follow-up transaction: output lines with the transaction sequence
    number renamed (the filestore part was reduced to the destination file by `absolute_fs`)"""
    return [re.sub(r"(seq=|:)(\d+)/(\d)",
                   lambda m: f"{m.group(1)}#{(int(m.group(2)) - first_seq) % 2 ** bits}/{m.group(3)}", l)
            for l in lines]


def absolute_fs(ops: list[str], outs: list[str], dst_path: str, init: dict[str, str] | None = None) -> list[str]:
    """replace the delta-coded filestore column by the current content of `dst_path` in that handler's
    filestore (absent / dir / hex)"""
    last: dict[str, str] = dict(init or {})
    res = []
    for op, l in zip(ops, outs):
        t = op.split()
        h = t[1] if len(t) > 1 else None
        head, sep, fs = l.rpartition(" | fs=")
        if sep and h is not None:
            if fs != "same":
                snap = parse_fs(fs)
                v = snap.get(dst_path, "absent")
                last[h] = "absent" if v == "absent" else ("dir" if v is None else (v.hex() or "-"))
            l = head + " | fs=" + last.get(h, "absent")
        res.append(l)
    return res


def followup(rng: Rng, world_cfg: Cfg, names=("S", "D")) -> tuple[Cfg, Pacing]:
    c = Cfg.from_json(world_cfg.to_json())
    c.src_path, c.dst_path = T_SRC, T_DST
    c.dirs_d, c.dfiles, c.metadata_only, c.msgs = (), (), False, "-"
    c.put_mode, c.put_closure = rng.choice("-AU"), rng.choice("-01")
    if rng.chance(0.15):
        c.metadata_only = True          # a metadata-only request after whatever the history was
    return c, Pacing()


def run_T(l: Link) -> tuple[int, int]:
    a = len(l.sess.ops)
    l.run()
    return a, len(l.sess.ops)


def reuse_case(rng: Rng):
    """history on (S, D), then a follow-up transaction; compared with the follow-up on fresh handlers"""
    c = rand_cfg(rng)
    tdata = rand_bytes(rng, rng.randrange(0, 3 * max(1, min(c.seg_len, 8)) + 2))
    c.faults_s = g.rand_fault_table(rng, ["POSITIVE_ACK_LIMIT_REACHED", "CHECK_LIMIT_REACHED",
                                          "CANCEL_REQUEST_RECEIVED"], p=0.3)
    c.faults_d = g.rand_fault_table(rng, p=0.3)
    header = header_with_parent_dirs(c) + [f"file S {T_SRC} {tdata.hex() or '-'}"]
    n_hist = rng.choice((1, 1, 2))
    # in some histories the earlier transactions send the very path the follow-up sends, with other
    # content of the same size; the user rewrites the file before the follow-up
    same_path = rng.chance(0.4)
    hdata = bytes((b + 1 + rng.randrange(0, 255)) % 256 for b in tdata) if same_path else b""
    lh = Link(c, header=header, rng=rng,
              plan=rand_plan(rng, rng.randrange(0, 4), 6, 3), pacing=Pacing())
    hist_cfgs = []
    for i in range(n_hist):
        hc = Cfg.from_json(c.to_json())
        hc.put_mode, hc.put_closure = rng.choice("-AU"), rng.choice("-01")
        if rng.chance(0.4):
            # the earlier request names the same entity with an id field of another width: its PDU headers
            # (and everything derived from their length) differ from the follow-up's
            hc.put_did = f"{c.did.split('/')[0]}/{rng.choice((1, 2, 4, 8))}"
            # (not the configuration of the listed finding C07:segment-length-not-positive — a derived segment
            # length of exactly 0 — whose empty File Data PDUs cannot be encoded)
            if int(c.did.split('/')[0]) >= 256 ** int(hc.put_did.split('/')[1]) or hc.seg_len == 0:
                hc.put_did = ""
        if not same_path and not hc.metadata_only and rng.chance(0.15):
            # an earlier transaction sends an empty file
            hc.data = b""
            lh.sess.do(f"file S {hc.src_path} -")
        if same_path:
            hc.src_path, hc.dst_path, hc.data = T_SRC, T_DST, hdata
            hc.dirs_d, hc.dfiles, hc.metadata_only = (), (), False
            lh.sess.do(f"file S {T_SRC} {hdata.hex() or '-'}")
        lh.cfg = hc
        lk = Link(hc, sess=lh.sess, rng=rng, plan=rand_plan(rng, rng.randrange(0, 4), 6, 3))
        lk.closed, lk.active = lh.closed, lh.active
        if rng.chance(0.3):
            at = rng.randrange(2, 20)
            who = rng.choice("SD")

            def hook(x, h, st, state={"n": 0}):
                state["n"] += 1
                if state["n"] == at and x.active[who] is not None:
                    x.after_op = None
                    a, b = x.active[who].split(":")
                    x.drain(who)
                    x.op(f"cancel {who} {a} {b}")
                    x.drain(who)
            lk.after_op = hook
        elif rng.chance(0.3):
            # the user abandons the running transaction with the public reset() while PDUs it has just queued
            # are still unretrieved (they stay retrievable; the handler is idle and as good as new)
            at = rng.randrange(1, 25)
            who = rng.choice("SDD")

            def rhook(x, h, st, state={"n": 0}):
                state["n"] += 1
                if state["n"] >= at and h == who and st.ok and st.state == "BUSY" and st.rdy > 0:
                    x.after_op = None
                    x.op(f"reset {who}")
            lk.after_op = rhook
        lk.run(max_rounds=120, max_ticks=40)
        # end of history: whatever happened, the user drains both queues; a transaction that is still
        # running is ended with the public reset() (abandoned by the user)
        # (in half of these cases the reset comes while PDUs are still unretrieved: a timer interval passes, one
        # more call queues what the expiry produces, and the user resets before retrieving it)
        for h in "SD":
            lk.drain(h)
            if not lk.idle(h):
                if rng.chance(0.5):
                    lk.op(f"tick {max(int(hc.ack.split('/')[0]), int(hc.nak.split('/')[0]), hc.chkms)}")
                    lk.sm(h)
                if not lk.idle(h):
                    lk.op(f"reset {h}")
                lk.drain(h)
    s = lh.sess
    left_over = None
    if same_path:
        s.do(f"file S {T_SRC} {tdata.hex() or '-'}")
        # the destination file of the history is the follow-up's too: the fresh run starts from it
        left_over = s.fs_content("D", T_DST)
    # sequence number the follow-up will get = provider state now
    used = sum(1 for op, out in zip(s.ops, s.out) if op.startswith("sm S") and " | ind=tx(" in out)
    first_seq = (c.seqnext + used) % 2 ** c.seqbits
    tc, _ = followup(rng, c)
    tc.data = tdata
    lt = Link(tc, sess=s, rng=rng)
    a, b = run_T(lt)
    reused_ops = s.ops[a:b]
    reused = absolute_fs(s.ops, s.out, T_DST)[a:b]
    # the same follow-up on freshly constructed handlers (same configuration, same clock offset is
    # irrelevant: all timers are relative)
    fresh_header = [l if not l.startswith("P p ") else f"P p {c.seqbits} {first_seq}" for l in header]
    if left_over is not None:
        fresh_header = fresh_header + [f"file D {T_DST} {left_over.hex() or '-'}"]
    lf = Link(tc, header=fresh_header, rng=rng)
    fa, fb = run_T(lf)
    fresh_ops = lf.sess.ops[fa:fb]
    fresh = absolute_fs(lf.sess.ops, lf.sess.out, T_DST,
                        None if left_over is None else {"D": left_over.hex() or "-"})[fa:fb]
    fails = o.Fails()

    def own_seq(lines, default):
        """the sequence number the follow-up actually got (a transaction start that raised after drawing a
        number — segment length not derivable — consumed numbers without announcing a transaction: "up to
        the transaction sequence number")"""
        for l in lines:
            m = re.search(r" \| ind=tx\(\d+/\d+:(\d+)/\d", l)
            if m:
                return int(m.group(1))
        return default
    A = norm(reused, T_DST, own_seq(reused, first_seq), c.seqbits)
    B = norm(fresh, T_DST, own_seq(fresh, first_seq), c.seqbits)
    # the scripts carry the PDUs that were delivered: compared with the sequence number renamed, too
    raw_reused_ops, raw_fresh_ops = reused_ops, fresh_ops
    reused_ops = norm(reused_ops, T_DST, own_seq(reused, first_seq), c.seqbits)
    fresh_ops = norm(fresh_ops, T_DST, own_seq(fresh, first_seq), c.seqbits)
    # the clock differs: tick lines print absolute time
    A = [re.sub(r"^ok now=\d+", "ok now=*", x) for x in A]
    B = [re.sub(r"^ok now=\d+", "ok now=*", x) for x in B]
    if reused_ops != fresh_ops or A != B:
        i = next((k for k, (x, y) in enumerate(zip(A, B)) if x != y), min(len(A), len(B)))
        kind = "ops" if reused_ops != fresh_ops and (i >= len(A) or i >= len(B) or reused_ops[:i + 1] != fresh_ops[:i + 1]) else "out"
        step = "?"
        if i < len(A):
            m = re.search(r"st=\w+/(\w+)", A[i])
            step = m.group(1) if m else "?"
        fails.add(f"C11:reused-differs-from-fresh:{step}",
                  {"at": i, "reused": A[i][:300] if i < len(A) else None, "fresh": B[i][:300] if i < len(B) else None,
                   "op": reused_ops[i][:200] if i < len(reused_ops) else None,
                   "fresh_header": fresh_header, "fresh_ops": raw_fresh_ops[:i + 1]}, a + i)
    lf.close()
    return s, fails, tc, {"history_transactions": n_hist, "first_seq": first_seq}


def sibling_case(rng: Rng):
    """the follow-up on (S, D) while a sibling pair (S2, D2) of the same process is mid-transaction,
    compared with the follow-up alone in the same world"""
    c = rand_cfg(rng)
    c.src_path, c.dst_path, c.dirs_d, c.dfiles, c.metadata_only, c.msgs = T_SRC, T_DST, (), (), False, "-"
    c.faults_s = c.faults_d = ""
    other = rand_bytes(rng, rng.randrange(1, 30))
    base = header_with_parent_dirs(c)
    r = c.remote_line()
    extra = [f"P p2 {c.seqbits} {rng.randrange(0, 200)}",
             f"H S2 src id={c.sid} ind=1111 chkms={c.chkms} seqp=p2",
             f"H D2 dst id={c.did} ind=1111 chkms={c.chkms}",
             f"R S2 id={c.did} {r}", f"R D2 id={c.sid} {r}",
             f"file S2 /o.bin {other.hex()}"]
    header = base + extra
    # alone
    la = Link(c, header=header, rng=rng)
    a0, a1 = run_T(la)
    alone_ops = la.sess.ops[a0:a1]
    alone = la.sess.out[a0:a1]
    la.close()
    # interleaved with the sibling pair, which loses a PDU so that it has lost segments outstanding
    s = Session(header)
    lt = Link(c, sess=s, rng=rng)
    oc = Cfg.from_json(c.to_json())
    oc.src_path, oc.dst_path, oc.data = "/o.bin", "/o_out.bin", other
    oc.mode, oc.put_mode = "A", "-"
    lo = Link(oc, sess=s, rng=rng, names=("S2", "D2"), plan={("SD", 1): ("drop",), ("SD", 2): ("delay", 3)})
    lo.op(oc.put_line().replace("put S ", "put S2 ", 1))
    for _ in range(rng.randrange(1, 6)):
        lo.one_round()
    lt.op(c.put_line())
    t_ops, t_out = [], []
    for _ in range(300):
        a = len(s.ops)
        lt.one_round(fair=True)
        t_ops += s.ops[a:]
        t_out += s.out[a:]
        if rng.chance(0.7):
            lo.one_round()
        if lt.idle("S") and lt.idle("D") and lt.in_flight() == 0:
            break
    fails = o.Fails()
    # compare what the follow-up pair did (ops on S/D only; the pump of the alone run is the same)
    A = [(x, y) for x, y in zip([c.put_line()] + t_ops, [s.out[s.ops.index(c.put_line())]] + t_out)]
    ao = list(zip(alone_ops, alone))
    A = [(x, re.sub(r" \| fs=.*$", "", y)) for x, y in A if x.split()[0] != "tick"]
    B = [(x, re.sub(r" \| fs=.*$", "", y)) for x, y in ao if x.split()[0] != "tick"]
    n = min(len(A), len(B))
    if A[:n] != B[:n]:
        i = next(k for k in range(n) if A[k] != B[k])
        fails.add("C11:concurrent-sibling-changes-behaviour",
                  {"at": i, "with_sibling": str(A[i])[:400], "alone": str(B[i])[:400]})
    got = s.fs_content("D", T_DST)
    if lt.idle("S") and lt.idle("D") and got != c.data:
        fails.add("C11:concurrent-sibling-file-differs", {})
    return s, fails, c, {}


PLANS = {"C11": [("reuse-vs-fresh", 500, reuse_case), ("sibling-instances", 300, sibling_case)]}


def run(ctx: Ctx) -> int:
    import handler_props as hp
    return hp.check(ctx, "C11", META["level"], META["rule"], META["assumptions"], plans=PLANS)


def replay(ctx: Ctx, path: str) -> int:
    import json
    from suites import replay_session
    obj = json.load(open(path))
    if "ops" not in obj:
        print("no script in replay:", obj.get("kind"), str(obj.get("lean_problems"))[:300])
        return 1
    d = obj.get("detail", {})
    if "fresh_header" not in d:
        print("replay needs the fresh-handler script; see detail")
        return 1
    s = replay_session(obj)
    f = Session(d["fresh_header"])
    for op in d["fresh_ops"]:
        f.do(op)
    a = s.out[-1]
    b = f.out[-1]
    s.close(); f.close()
    print("reused:", a[:300]); print("fresh :", b[:300])
    print(f"VIOLATION property=C11 replay={path}" if re.sub(r"\d+/", "#/", a.split(" | fs=")[0]) != re.sub(r"\d+/", "#/", b.split(" | fs=")[0]) else "not reproduced")
    return 1
