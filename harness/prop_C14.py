"""C14 — see DESIGN.md §6 and harness/handler_props.py (plan) / oracles.py (oracle)."""
import handler_props as hp
from prop_meta import META_ALL

META = META_ALL["C14"]


def run(ctx):
    return hp.check(ctx, "C14", META["level"], META["rule"], META["assumptions"],
                    extra_explore=hp.c14_fho_explore)


def replay(ctx, path):
    return hp.replay(ctx, "C14", path)
