"""Plans (generator + oracle) of the handler-level property checks.  Each entry of a plan is
(suite name, n_quick, fn) with fn(rng) -> (session, failures, cfg, extra); the session is closed
by the runner.  `check(ctx, pid)` applies the decision rule of DESIGN.md §2."""
from __future__ import annotations

import gen_handlers as g
import scenarios as sc
import oracles as o
from common import Rng
from framework import Ctx, decide, lean_stage
from link import Cfg, Link, Pacing, header_with_parent_dirs, rand_cfg, rand_plan, plan_text
from session import Session
from suites import Runner, generic_replay
from trace import Trace

THOROUGH_SCALE = 12


# ------------------------------------------------------------------ generator/oracle combinations
def link_faulty(rng: Rng, oracle, kmax=5, pacing=0.3, cancel=False, **force):
    c = rand_cfg(rng, **force)
    if c.cks in (0, 15):
        # null / modular checksum: loss, duplication, reordering only, acknowledged mode (C01 quantifier)
        c.mode, c.put_mode = "A", "-"
        kinds = ("drop", "dup", "delay")
        rej = False
    else:
        kinds = ("drop", "dup", "delay", "flip")
        rej = rng.chance(0.2)
    k = rng.randrange(0, kmax + 1)
    l = g.link_session(rng, k, pacing=rng.chance(pacing), cfg=c, kinds=kinds, rejects=rej, cancel=cancel,
                       fs_kind="native" if rng.chance(0.25) else "mem")
    r = l.run()
    tr = Trace.of_session(l.sess)
    return l.sess, oracle(tr, c, r), c, {"plan": plan_text(l.plan), "stuck": r.stuck}


def link_faulty_history(rng: Rng, oracle, kmax=4, **force):
    """two transactions of the same request on ONE handler pair: the first over a clean link, or cancelled
    by one of the users on the way; the second over a faulty link.  What the first left behind in the
    handler objects (completion state, Finished parameters, trackers, timers) must not leak into the
    second (C01: no success without a verified file; C05: the write model of the second transaction)."""
    c = rand_cfg(rng, metadata_only=False, **force)
    if c.cks in (0, 15):
        c.mode, c.put_mode = "A", "-"
        kinds = ("drop", "dup", "delay")
    else:
        kinds = ("drop", "dup", "delay", "flip")
    fs_kind = "native" if rng.chance(0.25) else "mem"
    first = rng.choice(("clean", "clean", "cancel"))
    l1 = g.link_session(rng, 0, fs_kind=fs_kind, cfg=c, cancel=first == "cancel")
    r1 = l1.run()
    n_sd = 2 + len(c.data) // max(1, c.seg_len) + 1
    from link import Link, rand_plan
    l2 = Link(c, sess=l1.sess, rng=rng, plan=rand_plan(rng, rng.randrange(0, kmax + 1), n_sd + 2, 4, kinds))
    if not r1.stuck:
        r = l2.run()
    else:
        r = r1
    tr = Trace.of_session(l2.sess)
    return l2.sess, oracle(tr, c, r), c, {"first": first, "plan": plan_text(l2.plan), "stuck": r.stuck}


def link_clean(rng: Rng, oracle, **force):
    c = rand_cfg(rng, **force)
    # a third of the sessions on the native filestore (sandbox): the library's own checksum and file
    # access code is then in the loop, not the harness's in-memory filestore
    l = g.link_session(rng, 0, pacing=rng.chance(0.6), cfg=c, fs_kind="native" if rng.chance(0.34) else "mem")
    r = l.run()
    tr = Trace.of_session(l.sess)
    return l.sess, oracle(tr, c, r), c, {"stuck": r.stuck}


def recov_cfg(rng: Rng, k: int) -> Cfg:
    c = rand_cfg(rng, mode="A", put_mode="-", metadata_only=False)
    lim = k + 1 + rng.randrange(0, 2)
    c.ack = f"{c.ack.split('/')[0]}/{lim}"
    c.nak = f"{c.nak.split('/')[0]}/{lim + 1}"      # NAK limit is compared with == after counter+1
    c.chklim = lim
    c.faults_s = c.faults_d = ""
    return c


def link_recovery(rng: Rng, oracle):
    k = rng.choice((1, 1, 2, 2, 3))
    c = recov_cfg(rng, k)
    n_sd = 3 + len(c.data) // max(1, c.seg_len)
    plan = rand_plan(rng, k, n_sd + 1, 4, kinds=("drop", "dup", "delay"))
    # in half of the runs the user's pacing is not the canonical one: several calls without a PDU per round
    # (polling), deliveries held back for a round or handed over one by one — recovery must not depend on it
    pacing = Pacing()
    if rng.chance(0.5):
        pacing = Pacing(idle_s=rng.choice((1, 2, 3)), idle_d=rng.choice((1, 2, 3, 4)),
                        hold=rng.choice((0, 0.3, 0.5)), batch=rng.choice((99, 1, 2)))
    l = Link(c, plan=plan, rng=rng, pacing=pacing)
    r = l.run(max_rounds=600, max_ticks=120)
    tr = Trace.of_session(l.sess)
    return l.sess, oracle(tr, c, r), c, {"plan": plan_text(plan), "K": k, "pacing": str(pacing)}


class DropEnum:
    """systematic part of the C03 exploration: for one configuration at a time, EVERY schedule of one or
    two dropped PDUs over the first `span` positions of both directions (retransmissions included), in
    both NAK modes.  Called like a generator function of a plan; draws a new configuration when the
    schedules of the current one are exhausted."""

    def __init__(self, oracle, kinds=("drop",)):
        self.oracle, self.kinds, self.queue = oracle, kinds, []

    def refill(self, rng: Rng):
        c = recov_cfg(rng, 2)
        seg = max(1, c.seg_len)
        tiles = rng.choice((2, 3, 3, 4))
        n = min(96, (tiles - 1) * seg + rng.choice((1, seg)))
        if seg > 32:
            n = rng.choice((33, 60))
        from link import rand_bytes
        c.data = rand_bytes(rng, n)
        n_sd = 2 + (n + seg - 1) // seg + 3
        n_ds = 5
        pos = [("SD", i) for i in range(n_sd)] + [("DS", i) for i in range(n_ds)]
        imm = rng.randrange(2)
        plans = [{a: ("drop",)} for a in pos]
        plans += [{a: ("drop",), b: ("drop",)} for i, a in enumerate(pos) for b in pos[i + 1:]]
        for pl in plans:
            cc = Cfg(**{**c.__dict__, "imm": imm})
            self.queue.append((cc, pl))

    def __call__(self, rng: Rng):
        if not self.queue:
            self.refill(rng)
        c, plan = self.queue.pop()
        l = Link(c, plan=plan, rng=rng, pacing=Pacing())
        r = l.run(max_rounds=600, max_ticks=120)
        tr = Trace.of_session(l.sess)
        return l.sess, self.oracle(tr, c, r), c, {"plan": plan_text(plan), "K": len(plan)}


def dest_any(rng: Rng, oracle, **kw):
    c = rand_cfg(rng)
    if not kw.get("grid_only"):
        c.faults_d = g.rand_fault_table(rng, p=kw.pop("fault_p", 0.0))
    else:
        kw.pop("fault_p", None)
    s = g.dest_session(rng, cfg=c, **kw)
    tr = Trace.of_session(s)
    return s, oracle(tr, c, None), c, {}


def dest_honest(rng: Rng):
    """destination fed by a sender whose EOF is truthful; null / modular checksum only in acknowledged
    mode with loss, duplication and reordering of grid tiles (the quantifier of C01)"""
    c = rand_cfg(rng)
    weak = c.cks in (0, 15)
    if weak:
        c.mode, c.put_mode = "A", "-"
    s = g.dest_session(rng, cfg=c, honest=True, n_tx=1, grid_only=weak)
    tr = Trace.of_session(s)
    return s, o.o_C01(tr, c), c, {}


def dest_grid_acked(rng: Rng, oracle):
    c = rand_cfg(rng, mode="A", put_mode="-")
    s = g.dest_session(rng, grid_only=True, cfg=c, n_tx=1)
    tr = Trace.of_session(s)
    return s, oracle(tr, c, None), c, {}


def source_any(rng: Rng, oracle, fault_p=0.0, mode=None, put_mode=None, **kw):
    c = rand_cfg(rng, **({"mode": mode, "put_mode": put_mode} if mode else {}))
    if fault_p:
        c.faults_s = g.rand_fault_table(rng, ["POSITIVE_ACK_LIMIT_REACHED", "CHECK_LIMIT_REACHED",
                                              "CANCEL_REQUEST_RECEIVED"], p=fault_p)
    s = g.source_session(rng, cfg=c, **kw)
    tr = Trace.of_session(s)
    return s, oracle(tr, c, None), c, {}


def malformed(rng: Rng, oracle):
    s = g.malformed_session(rng)
    tr = Trace.of_session(s)
    return s, oracle(tr, None, None), None, {}


# ------------------------------------------------------------------ oracles with a uniform signature
def oc(fn):
    return lambda tr, c, r: fn(tr, c)


def ot(fn):
    return lambda tr, c, r: fn(tr)


def c10_sig(tr: Trace, c, r):
    """C10 oracle + recognition of the listed finding (NAK that cannot fit max_packet_len)"""
    from session import pdu_fields
    out = o.Fails()
    for sig, det, idx in o.o_C10(tr):
        if sig.startswith("C10:internal-error:ValueError:dst:sm:") and idx is not None:
            e = tr.ev[idx]
            # header configuration of the active transaction = that of the last PDU handled/emitted
            # header configuration of the active transaction: that of the last PDU the handler emitted,
            # else of the last inbound PDU it admitted (refused foreign PDUs say nothing about it)
            last = None
            for x in tr.ev[:idx + 1]:
                if x.h == e.h and x.pdu:
                    last = x.pdu
            if last is None:
                for x in tr.ev[:idx + 1]:
                    if x.h == e.h and x.inp and x.exc is None:
                        last = x.inp
            if last is not None and e.h in tr.remote:
                q = pdu_fields(last)
                base = (4 + int(q["src"].split("/")[1]) + int(q["dst"].split("/")[1])
                        + int(q["seq"].split("/")[1]) + 1 + (2 if q["crc"] == "1" else 0)
                        + (16 if q["large"] == "1" else 8))
                if int(tr.remote[e.h]["maxpkt"]) < base:
                    # the inbound transaction's header is wider than max_packet_len provides for:
                    # get_max_seg_reqs_for_max_packet_size_and_pdu_cfg raises ValueError
                    sig = "C10:internal-error:ValueError:dst:nak-base-exceeds-max-packet-len"
        if (sig.startswith("C10:internal-error:ValueError:src:sm:IDLE") or
                sig.startswith("C10:internal-error:ValueError:src:sm:TRANSACTION_START")) and idx is not None:
            e = tr.ev[idx]
            puts = [x for x in tr.ev[:idx] if x.h == e.h and x.op == "put" and x.st.ok and x.st.ret == "true"]
            if puts and e.h in tr.remote:
                from world import kv
                a = kv(puts[-1].line.split())
                w = max(int(a["dest"].split("/")[1]), int(tr.hcfg[e.h]["id"].split("/")[1]))
                bits = [int(l.split()[2]) for l in tr.header if l.split()[0] == "P" and l.split()[1] == tr.hcfg[e.h].get("seqp")]
                rc = tr.remote[e.h]
                need = 4 + 2 * w + (bits[0] // 8 if bits else 2) + 4 + (2 if rc["crc"] == "1" else 0)
                if int(rc["maxpkt"]) < need:
                    # _calculate_max_file_seg_len: get_max_file_seg_len_for_max_packet_len_and_pdu_cfg raises
                    sig = "C10:internal-error:ValueError:src:max-packet-len-below-file-data-header"
        if sig.startswith("C10:internal-error:AttributeError:src:sm:") and idx is not None:
            e = tr.ev[idx]
            puts = [x for x in tr.ev[:idx] if x.h == e.h and x.op == "put" and x.st.ok and x.st.ret == "true"]
            if puts:
                from world import kv
                a = kv(puts[-1].line.split())
                if (a.get("src", "-") == "-") != (a.get("dst", "-") == "-"):
                    # put request naming only one of source / destination file: `None.as_posix()`
                    sig = "C10:internal-error:AttributeError:src:put-request-with-one-file-name"
        out.add(sig, det, idx)
    return out


PLANS = {
    "C01": [("link-faulty", 900, lambda rng: link_faulty(rng, lambda tr, c, r: o.o_C01(tr, c))),
            ("dest-honest-sender", 500, lambda rng: dest_honest(rng)),
            ("link-faulty-after-history", 300, lambda rng: link_faulty_history(rng, lambda tr, c, r: o.o_C01(tr, c)))],
    "C02": [("link-fault-free", 1500, lambda rng: link_clean(rng, o.o_C02))],
    "C03": [("link-recovery", 700, lambda rng: link_recovery(rng, o.o_C03)),
            ("link-all-single-and-double-drops", 900, DropEnum(o.o_C03))],
    "C04": [("source-silent-peer", 700, sc.c04_source), ("dest-silent-peer", 900, sc.c04_dest)],
    "C13": [("dest-eof-overtakes-data", 1200, sc.c13_dest), ("source-closure-check-timer", 400, sc.c13_source)],
    "C05": [("dest-arbitrary", 700, lambda rng: dest_any(rng, ot(o.o_C05), fault_p=0.3)),
            # the same histories on the library's own NativeFilestore (sandbox), several transactions to
            # the same destination path on one handler: what is on disk is what the write model says
            ("dest-arbitrary-native", 250, lambda rng: dest_any(rng, ot(o.o_C05), fault_p=0.3, fs_kind="native",
                                                                n_tx=rng.choice((2, 3)))),
            ("link-faulty", 400, lambda rng: link_faulty(rng, lambda tr, c, r: o.o_C05(tr))),
            ("link-faulty-after-history", 250, lambda rng: link_faulty_history(rng, lambda tr, c, r: o.o_C05(tr)))],
    "C06": [("dest-grid-acked", 1500, lambda rng: dest_grid_acked(rng, oc(o.o_C06)))],
    "C07": [("source-undisturbed", 1200, lambda rng: source_any(
        rng, lambda tr, c, r: o.Fails(list(o.o_C07(tr, c)) + list(o.o_seglen(tr, c))), quiet=True, well_behaved=True,
        vary_file=0.5)),
            ("link-fault-free", 400, lambda rng: link_clean(rng, lambda tr, c, r: o.o_C07(tr, c))),
            # disturbed runs (NAKs served in every step, timers, cancel requests, foreign PDUs): the header
            # clauses hold for every PDU, and every EOF (no error) still announces the whole file
            ("source-disturbed", 400, lambda rng: source_any(rng, lambda tr, c, r: o.o_C07(tr, c), always_drain=True))],
    # C09, EOF clause (the checksum calculation itself is suite_checksum): sender sessions with cancel
    # requests, ACK timer expiries and several transactions on one handler whose source file is rewritten in
    # between; acknowledged mode twice as often (the positive ACK procedure re-sends the EOF)
    "C09": [("source-eof-checksum", 500, lambda rng: source_any(rng, ot(o.o_C09_eof), vary_file=0.5)),
            ("source-eof-checksum-acked", 400, lambda rng: source_any(rng, ot(o.o_C09_eof), vary_file=0.5,
                                                                      mode="A", put_mode="-"))],
    "C08": [("source-naks", 1200, lambda rng: source_any(rng, oc(o.o_C08), always_drain=True))],
    "C10": [("malformed", 1200, lambda rng: malformed(rng, c10_sig)),
            ("dest-arbitrary", 500, lambda rng: dest_any(rng, c10_sig, bad_dest=0.1)),
            # the same on the library's own NativeFilestore (sandbox): its checksum and file access code, not
            # the harness's in-memory filestore, is what can leak errors here
            ("dest-arbitrary-native", 400, lambda rng: dest_any(rng, c10_sig, bad_dest=0.1, fs_kind="native")),
            ("source-any", 500, lambda rng: source_any(rng, c10_sig)),
            ("link-faulty", 300, lambda rng: link_faulty(rng, c10_sig))],
    "C12": [("link-cancel", 900, lambda rng: link_faulty(rng, lambda tr, c, r: o.o_C12(tr, c), kmax=1, cancel=True)),
            ("dest-cancel", 500, lambda rng: dest_any(rng, oc(o.o_C12))),
            ("source-cancel", 500, lambda rng: source_any(rng, oc(o.o_C12)))],
    "C14": [("dest-fault-tables", 900, lambda rng: dest_any(rng, ot(o.o_C14), fault_p=1.0, reconf=0.6,
                                                            n_tx=rng.choice((1, 2, 3)), bad_dest=0.2)),
            ("source-fault-tables", 700, lambda rng: source_any(rng, ot(o.o_C14), fault_p=1.0, reconf=0.6,
                                                                n_tx=rng.choice((1, 2, 3)))),
            ("link-fault-tables", 500, lambda rng: link_faulty(
                rng, lambda tr, c, r: o.o_C14(tr), kmax=3, cancel=True,
                faults_d=g.rand_fault_table(rng, p=1.0),
                faults_s=g.rand_fault_table(rng, ["POSITIVE_ACK_LIMIT_REACHED", "CHECK_LIMIT_REACHED",
                                                  "CANCEL_REQUEST_RECEIVED"], p=1.0)))],
    "C15": [("link-faulty", 600, lambda rng: link_faulty(rng, lambda tr, c, r: o.o_C15(tr), cancel=True)),
            ("dest-arbitrary", 500, lambda rng: dest_any(rng, ot(o.o_C15), fault_p=0.3)),
            ("source-any", 500, lambda rng: source_any(rng, ot(o.o_C15), fault_p=0.3))],
    "C19": [("source-puts", 1200, lambda rng: source_any(
        rng, lambda tr, c, r: o.Fails(o.o_C19(tr) + o.o_seglen(tr, c) if False else o.o_C19(tr)))),
            ("source-quiet", 500, lambda rng: source_any(
                rng, lambda tr, c, r: o.Fails(list(o.o_C19(tr)) + list(o.o_seglen(tr, c))), quiet=True, n_tx=1))],
}


def c14_fho_explore(ctx: Ctx, scale: int = 1):
    """C14, implementation only: put requests carrying fault handler override options (they travel in the
    Metadata PDU, for the receiver); at the sender the local table alone decides.  The model's Metadata PDU has no
    such options, so these sessions are judged by the oracle o_C14 on the implementation's trace only."""
    n = 0
    for _ in range(150 * scale):
        c = rand_cfg(ctx.rng)
        c.faults_s = g.rand_fault_table(ctx.rng, ["POSITIVE_ACK_LIMIT_REACHED", "CHECK_LIMIT_REACHED",
                                                  "CANCEL_REQUEST_RECEIVED"], p=0.7)
        if ctx.rng.chance(0.5):
            s = g.source_session(ctx.rng, cfg=c, fho=1.0, n_tx=ctx.rng.choice((1, 2)))
        else:
            # a silent peer: the limit faults are certainly declared (Positive ACK Limit in acknowledged mode,
            # Check Limit with closure in unacknowledged mode), each with an override naming another code
            rng = ctx.rng
            c = rand_cfg(rng, put_mode="-", metadata_only=False)
            c.faults_s = g.rand_fault_table(rng, ["POSITIVE_ACK_LIMIT_REACHED", "CHECK_LIMIT_REACHED"], p=0.7)
            if c.mode == "U":
                c.closure = 1
            s = Session(header_with_parent_dirs(c))
            s.do(c.put_line() + " fho=" + ",".join(f"{cc}:{rng.choice(g.FH)}" for cc in g.SRC_CONDS))
            ackms, lim = (int(x) for x in c.ack.split("/"))
            for _ in range(6 + 2 * (len(c.data) // max(1, c.seg_len))):
                s.sm("S")
                s.drain("S")
            for _ in range(2 * lim + 3):
                s.tick(max(ackms, c.chkms))
                s.sm("S")
                s.drain("S")
        try:
            ctx.evaluations += 1
            n += 1
            tr = Trace.of_session(s)
            for sig, detail, idx in o.o_C14(tr):
                k = len(s.ops) if idx is None else idx + 1
                ctx.fail(sig, {"suite": "source-fault-handler-overrides-impl-only", "impl_only": True,
                               "header": s.header, "ops": s.ops[:k], "detail": detail, "cfg": c.to_json(),
                               "extra": {}, "impl_out_tail": s.out[max(0, k - 4):k]})
        finally:
            s.close()
    ctx.count("impl-only:fault-handler-override-sessions", n)


def c13_two_remotes_explore(ctx: Ctx, scale: int = 1):
    """C13, implementation only: the check timer of a transaction is the one the user's provider gives for that
    transaction's sender (scenarios.c13_two_remotes); the model has one interval per local entity, so these
    sessions are judged by the scenario's own oracle on the implementation's trace only."""
    n = 0
    for _ in range(120 * scale):
        s, fails, c, extra = sc.c13_two_remotes(ctx.rng)
        try:
            ctx.evaluations += 1
            n += 1
            ctx.count("scenario-skipped:two-remotes" if "skipped" in extra else "scenario-completed:two-remotes")
            for sig, detail, idx in fails:
                k = len(s.ops) if idx is None else idx + 1
                ctx.fail(sig, {"suite": "dest-two-remotes-impl-only", "impl_only": True, "scenario": "c13_two_remotes",
                               "header": s.header, "ops": s.ops[:k], "detail": detail, "cfg": c.to_json(),
                               "extra": {k2: str(v) for k2, v in extra.items()},
                               "impl_out_tail": s.out[max(0, k - 4):k]})
        finally:
            s.close()


def run_plan(ctx: Ctx, pid: str, scale: int = 1, plans=None):
    for name, n, fn in (plans or PLANS)[pid]:
        r = Runner(ctx, name)
        for _ in range(n * scale):
            sess, fails, cfg, extra = fn(ctx.rng)
            try:
                r.add(sess, fails, cfg, extra)
            finally:
                sess.close()
        r.flush()


def replay_oracle(pid: str):
    def fn(tr: Trace, c, obj):
        sig = obj.get("signature", "")
        res = o.Fails()
        cands = {
            "C01": lambda: o.o_C01(tr, c), "C05": lambda: o.o_C05(tr), "C06": lambda: o.o_C06(tr, c),
            "C07": lambda: o.Fails(list(o.o_C07(tr, c)) + list(o.o_seglen(tr, c))),
            "C08": lambda: o.o_C08(tr, c), "C09": lambda: o.o_C09_eof(tr), "C10": lambda: c10_sig(tr, c, None),
            "C12": lambda: o.o_C12(tr, c), "C14": lambda: o.o_C14(tr), "C15": lambda: o.o_C15(tr),
            "C19": lambda: o.Fails(list(o.o_C19(tr)) + (list(o.o_seglen(tr, c)) if c else [])),
        }
        if pid in cands:
            res = cands[pid]()
        elif pid in ("C02", "C03"):
            from link import LinkResult
            r = LinkResult()
            r.stuck = bool(obj.get("extra", {}).get("stuck")) or not all(
                tr.final[h] is not None and tr.final[h].state == "IDLE" for h in "SD")
            res = (o.o_C02 if pid == "C02" else o.o_C03)(tr, c, r)
        return res
    return fn


def replay_known_findings(ctx: Ctx, pid: str):
    """every listed finding of the property is replayed on the current tree (corpus first)"""
    import json
    from common import VERIF
    from suites import replay_session, cfg_of
    for sig, rel in ctx.findings.replays.get(pid, {}).items():
        f = VERIF / rel
        if not f.exists():
            ctx.notes.append(f"replay of known finding missing: {rel}")
            continue
        obj = json.load(open(f))
        sess = replay_session(obj)
        try:
            tr = Trace.of_session(sess)
            fails = replay_oracle(pid)(tr, cfg_of(obj), obj)
            r = Runner(ctx, "known-findings-corpus")
            r.add(sess, fails, cfg_of(obj), {"corpus": rel})
            r.flush()
        finally:
            sess.close()


def replay_regressions(ctx: Ctx, pid: str):
    """corpus/regress/<pid>/*.json: histories that once exposed a defect (repaired by a `fix:` commit)
    or a seeded change; they run first, through the same correspondence and oracle as generated ones"""
    import json
    from common import VERIF
    from suites import replay_session, cfg_of
    d = VERIF / "corpus" / "regress" / pid
    if not d.is_dir():
        return
    r = Runner(ctx, "regression-corpus")
    for f in sorted(d.glob("*.json")):
        obj = json.load(open(f))
        sess = replay_session(obj)
        try:
            tr = Trace.of_session(sess)
            fails = replay_oracle(pid)(tr, cfg_of(obj), obj)
            r.add(sess, fails, cfg_of(obj), {"corpus": str(f.relative_to(VERIF))})
        finally:
            sess.close()
    r.flush()


def check(ctx: Ctx, pid: str, level: str, rule: str, assumptions: list[str], plans=None,
          extra_explore=None) -> int:
    lean = lean_stage(pid)
    if pid == "C14":
        ctx.classify_disagreement = c14_callbacks_differ
    replay_known_findings(ctx, pid)
    replay_regressions(ctx, pid)
    scale = THOROUGH_SCALE if ctx.thorough else 1
    run_plan(ctx, pid, scale, plans)
    if extra_explore is not None:
        extra_explore(ctx, scale)

    def search(c: Ctx):
        if not c.thorough:
            run_plan(c, pid, 4, plans)
            if extra_explore is not None:
                extra_explore(c, 4)

    return decide(ctx, lean, level, search=search, coverage_extra={"rule": rule}, assumptions=assumptions)


def _flt_col(line: str) -> str | None:
    i = line.find(" | flt=")
    if i < 0:
        return None
    j = line.find(" | ", i + 3)
    return line[i + 7:j if j >= 0 else None]


def c14_callbacks_differ(impl_line: str, model_line: str) -> str | None:
    """C14, model-relative: the model fires exactly one callback of the configured kind per
    `_declare_fault` (C14 theorems); an implementation line that agrees with the model up to the fault
    callback column but reports other callbacks (more, fewer, another kind) is a failing input"""
    a, b = _flt_col(impl_line), _flt_col(model_line)
    if a is None or b is None or a == b:
        return None
    return "C14:fault-callbacks-differ-from-model"


def replay(ctx: Ctx, pid: str, path: str) -> int:
    import json
    obj = json.load(open(path))
    if obj.get("model_relative"):
        from suites import replay_session
        sess = replay_session(obj)
        try:
            script, impl = sess.script_lines(), sess.impl_lines()
        finally:
            sess.close()
        model = ctx.driver().run(script)
        for a, b in zip(impl, model):
            if a != b:
                if pid == "C14" and c14_callbacks_differ(a, b) == obj.get("signature"):
                    print(f"VIOLATION property={pid} replay={path}")
                    return 1
                break
        print("not reproduced on the current tree")
        return 0
    if pid in ("C04", "C13") and "ops" in obj and obj.get("impl_out_tail"):
        # scripted scenarios (scenarios.py) judge the run while they drive it; their replay re-executes the
        # recorded calls and compares the implementation's answers at the failing step with the recorded ones:
        # the same answers = the same failure
        from suites import replay_session
        sess = replay_session(obj)
        try:
            tail = sess.out[max(0, len(obj["ops"]) - len(obj["impl_out_tail"])):len(obj["ops"])]
        finally:
            sess.close()
        if tail == obj["impl_out_tail"]:
            print(f"VIOLATION property={pid} replay={path}")
            print("reproduced:", obj.get("signature"), json.dumps(obj.get("detail"), default=str)[:400])
            return 1
        print("not reproduced on the current tree (the implementation now answers:", str(tail[-1:])[:200], ")")
        return 0
    return generic_replay(ctx, path, replay_oracle(pid))
