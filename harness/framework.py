"""Decision procedure shared by all property checks (DESIGN.md §2 'Decision rule')."""
from __future__ import annotations

import json
import traceback

import common
from common import (Driver, Findings, Rng, Stopwatch, axiom_audit, grep_audit, lean_build, leanchecker,
                    tier_from_env,
                    property_theorems, report_violation, write_evidence)


class Ctx:
    def __init__(self, pid: str, tier: str, seed: int):
        self.pid, self.tier, self.seed = pid, tier, seed
        self.rng = Rng(seed * 1000003 + sum(ord(c) for c in pid))
        self.findings = Findings()
        self.watch = Stopwatch()
        self.evaluations = 0
        self.distinct: set[str] = set()          # hashes of distinct non-trivial cases
        self.samples: list = []
        self.distribution: dict[str, int] = {}
        self.disagreements: list[dict] = []       # model vs implementation
        self.failures: list[dict] = []            # oracle failures on the implementation
        self.known_hits: dict[str, str] = {}      # sig -> text of known findings that reproduced
        self.corr_scripts = 0
        self.notes: list[str] = []
        self._driver: Driver | None = None
        self.exhaustive = False

    @property
    def thorough(self) -> bool:
        return self.tier == "thorough"

    def driver(self) -> Driver:
        if self._driver is None:
            self._driver = Driver()
        return self._driver

    def count(self, key: str, n: int = 1):
        self.distribution[key] = self.distribution.get(key, 0) + n

    def sample(self, s, limit=5):
        if len(self.samples) < limit:
            self.samples.append(s)

    def fail(self, sig: str, replay: dict):
        """an oracle failure observed on the implementation"""
        if self.findings.is_known(self.pid, sig):
            self.known_hits.setdefault(sig, self.findings.text(self.pid, sig))
            return
        if not any(f["sig"] == sig for f in self.failures):
            self.failures.append({"sig": sig, "replay": replay})

    def disagree(self, suite: str, script, impl_out, model_out, idx=None):
        if len(self.disagreements) < 20:
            self.disagreements.append({"suite": suite, "script": script, "impl": impl_out,
                                       "model": model_out, "first_diff_line": idx})

    # -- correspondence of a batch of scripts: impl lines computed by caller
    def correspond(self, suite: str, scripts: list[list[str]], impl_outs: list[list[str]]):
        """run all scripts through ONE driver process, diff per script"""
        if not scripts:
            return
        flat: list[str] = []
        for s in scripts:
            flat.extend(s)
        out = self.driver().run(flat)
        if len(out) != len(flat):
            self.disagree(suite, "<batch>", f"{len(flat)} lines", f"{len(out)} lines")
            return
        pos = 0
        for s, io in zip(scripts, impl_outs):
            mo = out[pos:pos + len(s)]
            pos += len(s)
            self.corr_scripts += 1
            if mo != io:
                idx = next((i for i, (a, b) in enumerate(zip(mo, io)) if a != b), None)
                self.disagree(suite, s, io, mo, idx)
                cl = getattr(self, "classify_disagreement", None)
                if cl is not None and idx is not None:
                    sig = cl(io[idx], mo[idx])
                    if sig is not None and "W go" in s:
                        g = s.index("W go")
                        self.fail(sig, {"suite": suite, "header": [x[2:] for x in s[1:g]],
                                        "ops": [x[2:] for x in s[g + 1:idx + 1]],
                                        "detail": {"impl": io[idx][:400], "model": mo[idx][:400]},
                                        "model_relative": True})


def lean_stage(pid: str, extra_targets=()) -> dict:
    """build the property module (+driver), grep audit, axiom audit"""
    info: dict = {"ok": True, "problems": []}
    module, names = property_theorems(pid)
    info["theorems"] = names
    ok, log = lean_build([module, "driver", *extra_targets])
    info["build_ok"] = ok
    if not ok:
        info["ok"] = False
        info["problems"].append("lake build failed: " + log[-3000:])
        return info
    hits = grep_audit()
    if hits:
        info["ok"] = False
        info["problems"].append("forbidden constructs: " + "; ".join(hits[:10]))
    if tier_from_env() == "thorough":
        cok, cout = leanchecker(module)
        info["leanchecker"] = cout[:200] if cok else cout
        if not cok:
            info["ok"] = False
            info["problems"].append("leanchecker rejected the compiled modules: " + cout)
    aok, axioms, out = axiom_audit(pid)
    info["axioms"] = axioms
    if not aok:
        info["ok"] = False
        info["problems"].append("axiom audit failed: " + out[-2000:])
    info["discharged"] = sum(1 for n in names if n in axioms and set(axioms[n]) <= common.STD_AXIOMS)
    return info


def _explanation(pid: str) -> str:
    """what the check establishes and how (the text registered for the property in prop_meta.py)"""
    try:
        import prop_meta
        meta = prop_meta.META_ALL.get(pid) or {}
        return meta.get("text") or f"see DESIGN.md, section on {pid}"
    except Exception:  # noqa: BLE001
        return f"see DESIGN.md, section on {pid}"


def decide(ctx: Ctx, lean: dict, level: str, search=None, coverage_extra: dict | None = None,
           assumptions: list[str] | None = None) -> int:
    """apply the decision rule, write evidence, print VIOLATION / KNOWN-FINDING lines"""
    pid = ctx.pid
    rc = 0
    violations = 0
    for sig, text in sorted(ctx.known_hits.items()):
        print(f"KNOWN-FINDING: property={pid} {sig} :: {text}", flush=True)
    if ctx.failures:
        for f in ctx.failures[:5]:
            report_violation(pid, {"kind": "oracle-failure", "signature": f["sig"],
                                   "tier": ctx.tier, "seed": ctx.seed, **f["replay"]})
            violations += 1
        rc = 1
    elif not lean["ok"] or ctx.disagreements:
        # property no longer shown: search for a concrete failing input
        found = False
        if search is not None:
            try:
                search(ctx)
            except Exception:  # noqa: BLE001
                ctx.notes.append("search crashed: " + traceback.format_exc()[-1500:])
            if ctx.failures:
                for f in ctx.failures[:5]:
                    report_violation(pid, {"kind": "oracle-failure-after-broken-proof-or-tie",
                                           "signature": f["sig"], "tier": ctx.tier,
                                           "seed": ctx.seed, **f["replay"]})
                    violations += 1
                found = True
        if not found:
            report_violation(pid, {
                "kind": "property-no-longer-shown",
                "lean_problems": lean.get("problems", []),
                "theorems": lean.get("theorems", []),
                "correspondence_disagreements": ctx.disagreements[:3],
                "tier": ctx.tier, "seed": ctx.seed,
            }, no_input=True)
            violations += 1
        rc = 1
    names = lean.get("theorems", [])
    cov = {
        "evaluations": ctx.evaluations,
        "distinct_nontrivial": len(ctx.distinct),
        "samples": ctx.samples[:5] or ["<none>"],
        "obligations": len(names),
        "discharged": lean.get("discharged", 0),
        "checker_cmd": f"cd lean && lake build CfdpVerif.Props.{pid} && lake env lean .audit/Audit{pid}.lean  # #print axioms",
        "trusted_base": [
            "Lean 4.33.0 kernel", "axioms: propext, Classical.choice, Quot.sound (audited per theorem)",
            "hand-written model tied to /repo by differential execution (harness/)",
        ],
        "theorems": names,
        "axioms": lean.get("axioms", {}),
        "programs": ctx.corr_scripts,
        "disagreements_checked": len(ctx.disagreements),
        "traces_validated_against_impl": ctx.corr_scripts,
        "input_distribution": ctx.distribution,
        "known_findings_reproduced": sorted(ctx.known_hits),
        "exhaustive": ctx.exhaustive,
        "notes": ctx.notes,
        "explanation": _explanation(pid),
    }
    if lean.get("leanchecker") is not None:
        cov["leanchecker"] = lean["leanchecker"]
    if coverage_extra:
        cov.update(coverage_extra)
    write_evidence(pid, ctx.tier, ctx.seed, level, cov, ctx.watch.s(), violations, assumptions)
    return rc
