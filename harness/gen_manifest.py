"""Writes MANIFEST.json from the table below (kept in one place so it stays valid)."""
import json
from pathlib import Path

V = Path(__file__).resolve().parent.parent
ALL = [f"C{i:02d}" for i in range(1, 21)]

TB = ("Lean 4.33.0 kernel; axioms propext/Classical.choice/Quot.sound only (audited by #print axioms on "
      "every run); hand-written model tied to /repo's working tree by differential execution on every "
      "run; CPython and spacepackets/crcmod semantics modelled, not verified")

import sys
sys.path.insert(0, str(V / "harness"))
from prop_meta import META_ALL, TB as TB2  # noqa: E402

OLD = {

    "C18": dict(
        category="proof",
        text=("LostSegmentTracker modelled in Lean (Model/Tracker.lean); 10 theorems (Props/C18.lean) prove, "
              "for every listing and every admissible operation history without bound, that the listing is "
              "ascending/non-empty/non-overlapping and denotes exactly the union/difference of the history, "
              "that coalescing preserves the set and leaves no adjacent ranges, that the Boolean reports a "
              "change, and that a straddling removal is refused. The model is tied to the Python class by "
              "exhaustive small-scope and random differential execution (incl. malformed ops) on every run."),
        design_ref="§6 C18",
        technique="Lean 4 theorems (induction over op histories) + differential model/impl correspondence",
    ),
    "C09": dict(
        category="proof",
        text=("calculate_checksum/verify_checksum/calc_modular_checksum modelled in Lean (Model/Checksum.lean); "
              "theorems (Props/C09.lean) prove for every byte string, every prefix length and every chunk length "
              ">= 1 that the chunked CRC-32 / CRC-32C equals the CRC of the prefix (chunk-length independence), "
              "the modular checksum equals the sum of zero-padded big-endian words mod 2^32, null is four zero "
              "bytes, verification is equality; standard check values by kernel evaluation. EOF clause on the "
              "source handler model: every EOF PDU it queues — the first one, an EOF (cancel), and each one "
              "re-sent by the positive ACK procedure — carries this function's value for the prefix of the source "
              "file whose length is the PDU's own size field, i.e. the bytes sent (C09_source_eof_pdu, "
              "C09_source_eof_resent, C09_source_eof_cancel, C09_source_eof_metadata_only; the undisturbed "
              "stream's EOF is pinned down by the C07 whole-stream theorems). Tied to the Python "
              "by differential execution (all prefixes/chunk lengths of short strings, boundary and random "
              "cases of long ones, all four types + malformed) and an independent zlib/bitwise reference oracle; "
              "the EOF clause by sender sessions (cancel requests, ACK timer expiries, several transactions on one "
              "handler with the source file rewritten in between) run on implementation and source model, with "
              "the oracle o_C09_eof evaluated on every EOF PDU retrieved."),
        design_ref="§6 C09",
        technique="Lean 4 theorems (loop invariants over List UInt8) + differential correspondence",
    ),
    "C20": dict(
        category="proof",
        text=("Routing and admission tables are REGENERATED from the running code on every check (complete "
              "evaluation over kind x direction x mode x CRC x large x id width, against both handlers in every "
              "step reachable at a call boundary) and the theorems of Props/C20.lean are re-checked against "
              "them by kernel evaluation: routing rule, routed-here-never-refused-as-foreign, routed-elsewhere-"
              "always-refused with unchanged state, table completeness. The inactive-EOF helper is enumerated "
              "exhaustively on the implementation."),
        design_ref="§6 C20, §4.2",
        technique="Lean 4 decide +kernel over tables regenerated from the code (translator) + exhaustive enumeration",
    ),
}

CHECKS = dict(OLD)
for pid, mm in META_ALL.items():
    CHECKS[pid] = dict(category=mm["level"], text=mm["text"], design_ref=mm["design_ref"], technique=mm["technique"])
CHECKS = dict(sorted(CHECKS.items()))

NOT_YET = "check not built yet in this revision of /verif (work in progress, see DESIGN.md §10)"


def main():
    checks = []
    for pid, c in CHECKS.items():
        checks.append({
            "property_id": pid,
            "quick_cmd": f"./check {pid} --tier quick",
            "thorough_cmd": f"./check {pid} --tier thorough",
            "evidence_file": f"evidence/{pid}.json",
            "replay_cmd_template": f"./check {pid} --replay {{path}}",
            "engine": "lean4-model+correspondence",
            "level_claimed": {"category": c["category"], "text": c["text"], "design_ref": c["design_ref"]},
            "level_note": c.get("note", TB),
            "technique": c["technique"],
        })
    m = {
        "version": 1,
        "setup_cmd": "./setup.sh",
        "hooks": {
            "guard": "CFDP_PY_VERIF",
            "enable": "no hooks in /repo are needed: clock, filestore, user and fault callbacks are injected from the harness",
            "baseline_off_cmd": "cd /repo && /venv/bin/python -m pytest -ra -q -p no:cacheprovider --timeout=900 --continue-on-collection-errors",
            "source_commits": [],
            "add_only": True,
        },
        "engines": [{
            "name": "lean4-model+correspondence",
            "path": "lean/ (model, lemmas, property theorems, driver) + harness/ (correspondence, oracles)",
            "serves_properties": sorted(CHECKS),
            "kind_free_text": "machine-checked proof in Lean 4 over a hand-written executable model; correspondence check against the Python implementation; property oracles for failing-input search",
        }],
        "checks": checks,
        "not_applicable": [{"property_id": p, "reason": NOT_YET} for p in ALL if p not in CHECKS],
        "notes": "See DESIGN.md. known_findings.txt lists genuine defects (fixed or recorded).",
    }
    (V / "MANIFEST.json").write_text(json.dumps(m, indent=1))


if __name__ == "__main__":
    main()
