"""Structured view of a recorded session (script ops + canonical output lines).  The same class
parses implementation traces and model traces (they have the same format), so every oracle can be
evaluated on either."""
from __future__ import annotations

from dataclasses import dataclass, field

from session import Status, pdu_fields, pdu_kind, split_top, strip_len


def parse_fs(s: str) -> dict[str, bytes | None]:
    """snapshot text -> {path: bytes | None (directory)}"""
    out: dict[str, bytes | None] = {}
    if s in ("-", "", "same"):
        return out
    for item in s.split(","):
        if item.endswith("/"):
            out[item[:-1]] = None
        else:
            p, _, hx = item.rpartition(":")
            out[p] = b"" if hx == "-" else bytes.fromhex(hx)
    return out


def ind_parts(ind: str) -> tuple[str, list[str]]:
    name, _, rest = ind.partition("(")
    if not rest:
        return name, []
    if name == "mdrecv":          # the last field (messages to user) may contain ';'
        return name, rest[:-1].split(";", 5)
    return name, rest[:-1].split(";")


@dataclass
class Ev:
    idx: int
    op: str                  # put | sm | get | cancel | reset | tick | reject | sethandler
    h: str | None
    line: str
    out: str
    st: Status
    now: int
    inp: str | None = None   # inbound PDU text of an `sm H pdu ...`
    pdu: str | None = None   # PDU returned by `get`
    fs: dict = field(default_factory=dict)       # filestore of handler h AFTER the op
    fs_before: dict = field(default_factory=dict)
    prev: Status | None = None                   # status of the same handler before the op

    @property
    def exc(self):
        return self.st.exc

    @property
    def inds(self):
        return self.st.ind

    @property
    def flts(self):
        return self.st.flt


class Trace:
    def __init__(self, header: list[str], ops: list[str], outs: list[str]):
        self.header = header
        self.ops, self.outs = ops, outs
        self.files: dict[str, dict] = {}
        self.kinds: dict[str, str] = {}
        self.hcfg: dict[str, dict] = {}
        self.remote: dict[str, dict] = {}
        now = 0
        for l in header:
            t = l.split()
            if t[0] == "H":
                self.kinds[t[1]] = t[2]
                self.hcfg[t[1]] = dict(x.split("=", 1) for x in t[3:])
                self.files.setdefault(t[1], {})
            elif t[0] == "R":
                self.remote.setdefault(t[1], dict(x.split("=", 1) for x in t[2:]))
            elif t[0] == "file":
                self.files.setdefault(t[1], {})[t[2]] = b"" if t[3] == "-" else bytes.fromhex(t[3])
            elif t[0] == "dir":
                self.files.setdefault(t[1], {})[t[2]] = None
            elif t[0] == "clock":
                now = int(t[1])
        self.init_files = {k: dict(v) for k, v in self.files.items()}
        cur_fs = {k: dict(v) for k, v in self.files.items()}
        last: dict[str, Status | None] = {k: None for k in self.kinds}
        self.ev: list[Ev] = []
        for i, (op, out) in enumerate(zip(ops, outs)):
            t = op.split()
            st = Status(out)
            if t[0] == "tick":
                now += int(t[1])
                self.ev.append(Ev(i, "tick", None, op, out, st, now))
                continue
            if t[0] in ("file", "rm", "sparse") and len(t) > 2 and t[1] in cur_fs:
                # the user acts on a filestore between the handler calls
                fsn = dict(cur_fs[t[1]])
                if t[0] == "file":
                    fsn[t[2]] = b"" if t[3] == "-" else bytes.fromhex(t[3])
                elif t[0] == "rm":
                    fsn.pop(t[2], None)
                cur_fs[t[1]] = fsn
                self.ev.append(Ev(i, t[0], None, op, out, st, now))
                continue
            h = t[1] if len(t) > 1 else None
            e = Ev(i, t[0], h, op, out, st, now)
            if t[0] == "sm" and len(t) > 3 and t[2] == "pdu":
                e.inp = " ".join(t[3:])
            e.pdu = st.pdu
            if h in cur_fs:
                e.fs_before = cur_fs[h]
                if st.ok and st.fs != "same":
                    cur_fs[h] = parse_fs(st.fs)
                e.fs = cur_fs[h]
                e.prev = last[h]
                if st.ok:
                    last[h] = st
            self.ev.append(e)
        self.final_fs = cur_fs
        self.final = last

    @classmethod
    def of_session(cls, s) -> "Trace":
        return cls(s.header, s.ops, s.out)

    def for_h(self, h: str):
        return [e for e in self.ev if e.h == h]

    def emitted(self, h: str) -> list[Ev]:
        return [e for e in self.ev if e.h == h and e.op == "get" and e.pdu is not None]

    def all_inds(self, h: str) -> list[tuple[Ev, str]]:
        return [(e, x) for e in self.ev if e.h == h for x in e.inds]

    def all_flts(self, h: str) -> list[tuple[Ev, str]]:
        return [(e, x) for e in self.ev if e.h == h for x in e.flts]

    def excs(self, h: str | None = None):
        return [e for e in self.ev if e.exc is not None and (h is None or e.h == h)]

    def replay(self, upto: int | None = None) -> dict:
        n = len(self.ops) if upto is None else upto + 1
        return {"header": self.header, "ops": self.ops[:n], "impl_out_tail": self.outs[max(0, n - 6):n]}


def seg_set(a: int, b: int) -> set[int]:
    return set(range(a, b))
