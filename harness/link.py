"""End-to-end sessions: a SourceHandler S and a DestHandler D connected by a (faulty) link, driven
by a pump that plays the surrounding entity.  Everything that is done to the real handlers is
recorded by `session.Session` as an op script, so the identical script replays on the Lean model.

Fault plan: {(direction, index-of-emitted-PDU): action}, direction "SD" | "DS", action one of
("drop",) ("dup", delay) ("delay", n) ("flip", byte, bit).  Delays are in pump rounds.
"""
from __future__ import annotations

from dataclasses import dataclass, field, replace

from common import Rng
from session import Session, Status, pdu_fields, pdu_kind, set_field, strip_len

CKS_TYPES = (0, 2, 3, 15)          # MODULAR, CRC_32C, CRC_32, NULL


@dataclass
class Cfg:
    sid: str = "1/2"
    did: str = "2/2"
    mode: str = "A"                 # MIB default mode
    closure: int = 0
    crc: int = 0
    cks: int = 3
    maxseg: str = "4"
    maxpkt: int = 64
    ack: str = "1000/3"
    nak: str = "1000/3"
    chkms: int = 1000
    chklim: int = 3
    imm: int = 1
    disp: int = 0
    ind_s: str = "1111"
    ind_d: str = "1111"
    seqbits: int = 16
    seqnext: int = 0
    faults_s: str = ""
    faults_d: str = ""
    put_mode: str = "-"
    put_closure: str = "-"
    src_path: str = "/src.bin"
    dst_path: str = "/dst.bin"
    data: bytes = b""
    dirs_d: tuple = ()
    dfiles: tuple = ()
    msgs: str = "-"
    metadata_only: bool = False
    put_did: str = ""               # destination id as written in the put request (same value, maybe another width)

    def to_json(self) -> dict:
        d = dict(self.__dict__)
        d["data"] = self.data.hex()
        d["dirs_d"] = list(self.dirs_d)
        d["dfiles"] = [[p, x.hex()] for p, x in self.dfiles]
        return d

    @staticmethod
    def from_json(d: dict) -> "Cfg":
        d = dict(d)
        d["data"] = bytes.fromhex(d["data"])
        d["dirs_d"] = tuple(d.get("dirs_d", ()))
        d["dfiles"] = tuple((p, bytes.fromhex(x)) for p, x in d.get("dfiles", ()))
        return Cfg(**d)

    def remote_line(self) -> str:
        return (f"maxseg={self.maxseg} maxpkt={self.maxpkt} closure={self.closure} crc={self.crc} "
                f"mode={self.mode} cks={self.cks} ack={self.ack} nak={self.nak} imm={self.imm} "
                f"disp={self.disp} chklim={self.chklim}")

    def header(self) -> list[str]:
        r = self.remote_line()
        h = [f"P p {self.seqbits} {self.seqnext}",
             f"H S src id={self.sid} ind={self.ind_s} chkms={self.chkms} seqp=p",
             f"H D dst id={self.did} ind={self.ind_d} chkms={self.chkms}",
             f"R S id={self.did} {r}",
             f"R D id={self.sid} {r}"]
        if self.faults_s:
            h.append(f"F S {self.faults_s}")
        if self.faults_d:
            h.append(f"F D {self.faults_d}")
        if not self.metadata_only:
            h.append(f"file S {self.src_path} {self.data.hex() or '-'}")
        for p, d in self.dfiles:
            h.append(f"file D {p} {d.hex() or '-'}")
        for p in self.dirs_d:
            h.append(f"dir D {p}")
        return h

    def put_line(self) -> str:
        if self.metadata_only:
            return (f"put S dest={self.put_did or self.did} src=- dst=- mode={self.put_mode} "
                    f"closure={self.put_closure} msgs={self.msgs}")
        return (f"put S dest={self.put_did or self.did} src={self.src_path} dst={self.dst_path} mode={self.put_mode} "
                f"closure={self.put_closure} msgs={self.msgs}")

    @property
    def eff_mode(self) -> str:
        return self.mode if self.put_mode == "-" else self.put_mode

    @property
    def eff_closure(self) -> bool:
        return bool(self.closure) if self.put_closure == "-" else self.put_closure == "1"

    @property
    def idw(self) -> int:
        return max(int(self.sid.split("/")[1]), int((self.put_did or self.did).split("/")[1]))

    @property
    def hdr_len(self) -> int:
        return 4 + 2 * self.idw + self.seqbits // 8

    @property
    def seg_len(self) -> int:
        derived = self.maxpkt - (self.hdr_len + 4 + (2 if self.crc else 0))
        if self.maxseg != "-" and int(self.maxseg) < derived:
            return int(self.maxseg)
        return derived

    def expected_dest_path(self) -> str:
        if self.dst_path in self.dirs_d:
            base = self.src_path.rsplit("/", 1)[-1]
            return (self.dst_path.rstrip("/") + "/" + base) if self.dst_path != "/" else "/" + base
        return self.dst_path


def rand_bytes(rng: Rng, n: int) -> bytes:
    return bytes(rng.randrange(256) for _ in range(n))


def rand_cfg(rng: Rng, **force) -> Cfg:
    """structured, always-valid configuration over the cross product the properties quantify over"""
    wS, wD = rng.choice((1, 2, 4, 8)), rng.choice((1, 2, 4, 8))
    if rng.chance(0.5):
        wD = wS
    sv = rng.randrange(1, min(250, 2 ** (8 * wS) - 1))
    dv = rng.randrange(1, min(250, 2 ** (8 * wD) - 1))
    if dv == sv:
        dv = sv + 1
    seqbits = rng.choice((8, 16, 32))
    crc = rng.randrange(2)
    c = Cfg(sid=f"{sv}/{wS}", did=f"{dv}/{wD}", seqbits=seqbits, crc=crc)
    c.seqnext = rng.choice((0, 1, 7, 200, 2 ** seqbits - 1))
    c.mode = rng.choice("AU")
    c.closure = rng.randrange(2)
    c.cks = rng.choice(CKS_TYPES)
    base = c.hdr_len + 4 + (2 if crc else 0)
    # max packet length: allow at least 1 byte of file data and a NAK with >= 1 request
    nak_base = c.hdr_len + 1 + (2 if crc else 0) + 8 + 8
    lo = max(base + 1, nak_base, c.hdr_len + 1 + 1 + 4 + 4 + (2 if crc else 0))
    c.maxpkt = rng.choice((lo, lo + 1, lo + 3, lo + 8, lo + 17, 64 + lo, 256))
    c.maxseg = rng.choice(("-", "1", "2", "3", "4", "5", "8", "16", "4"))
    c.imm = rng.randrange(2)
    c.disp = rng.randrange(2)
    lim = rng.choice((1, 2, 3, 4))
    c.ack = f"{rng.choice((500, 1000, 2000))}/{lim}"
    c.nak = f"{rng.choice((500, 1000, 2000))}/{rng.choice((1, 2, 3, 4))}"
    c.chkms = rng.choice((500, 1000, 2000))
    c.chklim = rng.choice((1, 2, 3, 4))
    c.put_mode = rng.choice("-----AU")
    c.put_closure = rng.choice("-----01")
    c.ind_s = "".join(rng.choice("0111") for _ in range(4))
    c.ind_d = "".join(rng.choice("0111") for _ in range(4))
    seg = c.seg_len
    k = rng.choice((0, 0, 1, 1, 2, 3, 5))
    r = rng.choice((0, 0, 1, max(0, seg - 1), rng.randrange(0, max(1, seg))))
    n = min(k * seg + r, 96) if seg <= 32 else rng.choice((0, 1, 5, 33, 60))
    c.data = rand_bytes(rng, n)
    shape = rng.randrange(6)
    if shape == 0:
        c.dirs_d = ("/out",)
        c.dst_path = "/out"
        c.src_path = "/a/" + rng.choice(("f.bin", "g")) if rng.chance(0.5) else "/f.bin"
    elif shape == 1:
        c.dfiles = (("/dst.bin", rand_bytes(rng, rng.randrange(0, 2 * n + 3))),)
    elif shape == 2:
        c.dirs_d = ("/out",)
        c.dst_path = "/out"
        c.src_path = "/f.bin"
        c.dfiles = (("/out/f.bin", rand_bytes(rng, rng.randrange(0, n + 5))),)
    if c.src_path.startswith("/a/"):
        pass
    if rng.chance(0.08):
        c.metadata_only = True
    if rng.chance(0.15):
        c.msgs = rng.choice(("x0102", "o5.2.9.2", "r", "o5.2.9.2;r", "x;xff", "o1.1.2.1;o7.2.3.2"))
    for k_, v in force.items():
        setattr(c, k_, v)
    return c


def header_with_parent_dirs(c: Cfg) -> list[str]:
    """header + directory entries needed so that nested source paths exist in S's filestore"""
    h = c.header()
    extra = []
    parts = c.src_path.strip("/").split("/")[:-1]
    cur = ""
    for p in parts:
        cur += "/" + p
        extra.append(f"dir S {cur}")
    # directories must be declared before the file lines
    out = []
    for line in h:
        if line.startswith("file S") and extra:
            out.extend(extra)
            extra = []
        out.append(line)
    return out


@dataclass
class Pacing:
    """how the pump interleaves calls; the canonical pump is Pacing()"""
    idle_s: int = 1            # number of `sm S -` calls per round (after deliveries)
    idle_d: int = 1
    skip_s: float = 0.0        # probability of skipping a side in a round
    skip_d: float = 0.0
    hold: float = 0.0          # probability of holding back deliveries of a direction for a round
    batch: int = 99            # max deliveries per side and round


@dataclass
class LinkResult:
    stuck: bool = False
    rounds: int = 0
    faults_applied: int = 0
    exceptions: list = field(default_factory=list)   # (op index, handler, exception class)
    emitted: dict = field(default_factory=lambda: {"SD": [], "DS": []})
    delivered: dict = field(default_factory=dict)
    entity_replies: int = 0
    ticks: int = 0


class Link:
    def __init__(self, cfg: Cfg, fs_kind: str = "mem", plan: dict | None = None,
                 pacing: Pacing | None = None, rng: Rng | None = None, header: list[str] | None = None,
                 sess: Session | None = None, names: tuple = ("S", "D")):
        self.cfg = cfg
        self.S, self.D = names                     # handler names of the sending / receiving side
        self.sess = sess if sess is not None else \
            Session(header if header is not None else header_with_parent_dirs(cfg), fs_kind)
        self.plan = dict(plan or {})
        self.pacing = pacing or Pacing()
        self.rng = rng or Rng(0)
        self.q = {"SD": [], "DS": []}        # in flight: [ready_round, seqno, pdu_text]
        self.count = {"SD": 0, "DS": 0}
        self.n_ins = 0
        self.round = 0
        self.closed = {self.S: set(), self.D: set()}
        self.active = {self.S: None, self.D: None}
        self.res = LinkResult()
        self.events: list = []               # callbacks (op_index, handler, Status) for scheduled actions
        self.after_op = None                 # optional hook(self, handler, status)

    def close(self):
        self.sess.close()

    # ------------------------------------------------------------------ basic ops with bookkeeping
    def _track(self, h: str, st: Status):
        if st.exc is not None:
            self.res.exceptions.append((len(self.sess.ops) - 1, h, st.exc))
        if not st.ok:
            return
        if st.state == "BUSY" and st.tid != "-":
            self.active[h] = st.tid
        if st.state == "IDLE" and self.active[h] is not None:
            self.closed[h].add(self.active[h])
            self.active[h] = None
        if self.after_op is not None:
            self.after_op(self, h, st)

    def sm(self, h: str, pdu: str | None = None) -> Status:
        st = self.sess.sm(h, pdu)
        self._track(h, st)
        return st

    def op(self, line: str) -> Status:
        st = self.sess.do(line)
        t = line.split()
        if len(t) > 1 and t[1] in (self.S, self.D):
            self._track(t[1], st)
        return st

    def drain(self, h: str):
        d = "SD" if h == self.S else "DS"
        while True:
            st = self.sess.do(f"get {h}")
            self._track(h, st)
            p = st.pdu
            if p is None:
                return
            self.emit(d, p)

    def emit(self, d: str, pdu: str):
        idx = self.count[d]
        self.count[d] += 1
        self.res.emitted[d].append(pdu)
        act = self.plan.get((d, idx))
        ready = self.round + 1
        if act is None:
            self._push(d, ready, pdu)
            return
        self.res.faults_applied += 1
        if act[0] == "drop":
            return
        if act[0] == "dup":
            self._push(d, ready, pdu)
            self._push(d, ready + act[1], pdu)
        elif act[0] == "delay":
            self._push(d, ready + act[1], pdu)
        elif act[0] == "flip":
            if pdu_kind(pdu) == "fd":
                data = pdu_fields(pdu).get("data", "-")
                if data != "-":
                    b = bytearray(bytes.fromhex(data))
                    b[act[1] % len(b)] ^= 1 << (act[2] % 8)
                    pdu = set_field(pdu, "data", bytes(b).hex())
                else:
                    self.res.faults_applied -= 1
            else:
                self.res.faults_applied -= 1
            self._push(d, ready, pdu)
        else:
            raise ValueError(act)

    def _push(self, d, ready, pdu):
        self.n_ins += 1
        self.q[d].append([ready, self.n_ins, pdu])

    @staticmethod
    def tid_of(pdu: str) -> str:
        f = pdu_fields(pdu)
        return f"{f['src']}:{f['seq']}"

    def _tid_key(self, pdu: str) -> tuple:
        f = pdu_fields(pdu)
        return (int(f["src"].split("/")[0]), int(f["seq"].split("/")[0]))

    def _closed_has(self, h: str, pdu: str) -> bool:
        k = self._tid_key(pdu)
        for t in self.closed[h]:
            a, b = t.split(":")
            if (int(a.split("/")[0]), int(b.split("/")[0])) == k:
                return True
        return False

    def _entity_duty(self, h: str, pdu: str) -> bool:
        """PDUs for a transaction handler `h` has already closed are answered by the entity"""
        if not self._closed_has(h, pdu):
            return False
        if self.active[h] is not None and self._tid_key(pdu) == self._tid_key_of_tid(self.active[h]):
            return False
        k = pdu_kind(pdu)
        f = pdu_fields(pdu)
        hdr = (f"mode={f['mode']} crc={f['crc']} large={f['large']} src={f['src']} dst={f['dst']} "
               f"seq={f['seq']}")
        if h == self.D and k == "eof":
            # acknowledge_inactive_eof_pdu(eof, TERMINATED)
            self._push("DS", self.round + 1, f"ack dir=S {hdr} of=4 cond={f['cond']} tstat=2")
            self.res.entity_replies += 1
        elif h == self.S and k == "fin":
            self._push("SD", self.round + 1, f"ack dir=R {hdr} of=5 cond={f['cond']} tstat=2")
            self.res.entity_replies += 1
        return True

    @staticmethod
    def _tid_key_of_tid(t: str) -> tuple:
        a, b = t.split(":")
        return (int(a.split("/")[0]), int(b.split("/")[0]))

    def deliver_ready(self, h: str) -> int:
        d = "SD" if h == self.D else "DS"
        n = 0
        while n < self.pacing.batch:
            ready = sorted((x for x in self.q[d] if x[0] <= self.round), key=lambda x: (x[0], x[1]))
            if not ready:
                break
            item = ready[0]
            self.q[d].remove(item)
            pdu = item[2]
            if self._entity_duty(h, pdu):
                continue
            self.res.delivered.setdefault(h, []).append(pdu)
            self.sm(h, pdu)
            self.drain(h)
            n += 1
        return n

    def in_flight(self) -> int:
        return len(self.q["SD"]) + len(self.q["DS"])

    def status(self, h: str) -> Status:
        # last status of handler h
        for line, op in zip(reversed(self.sess.out), reversed(self.sess.ops)):
            t = op.split()
            if len(t) > 1 and t[1] == h and not line.startswith("bad-op"):
                st = Status(line)
                if st.ok:
                    return st
        return Status("")

    def idle(self, h: str) -> bool:
        st = self.status(h)
        return (not st.ok) or st.state == "IDLE"

    # ------------------------------------------------------------------ the pump
    def one_round(self, fair: bool = False):
        p, rng = self.pacing, self.rng
        self.round += 1
        self.res.rounds += 1
        for h in (self.D, self.S):
            skip = p.skip_d if h == self.D else p.skip_s
            if not fair and skip and rng.chance(skip):
                continue
            if fair or not (p.hold and rng.chance(p.hold)):
                self.deliver_ready(h)
            for _ in range(max(1, p.idle_d if h == self.D else p.idle_s) if fair else
                           (p.idle_d if h == self.D else p.idle_s)):
                self.sm(h)
                self.drain(h)

    def progress_sig(self):
        return (self.status(self.S).line, self.status(self.D).line, self.in_flight(), self.count["SD"],
                self.count["DS"])

    def run(self, max_rounds: int = 400, max_ticks: int = 60, tick_ms: int | None = None,
            start: bool = True) -> LinkResult:
        """put request, then pump until both sides are idle and the link is empty"""
        if start:
            self.op(self.cfg.put_line().replace("put S ", f"put {self.S} ", 1))
        if tick_ms is None:
            tick_ms = min(int(self.cfg.ack.split("/")[0]), int(self.cfg.nak.split("/")[0]), self.cfg.chkms)
        quiet = 0
        while self.res.rounds < max_rounds:
            before = self.progress_sig()
            self.one_round(fair=quiet > 0)
            if self.idle(self.S) and self.idle(self.D) and self.in_flight() == 0:
                return self.res
            if self.progress_sig() == before:
                quiet += 1
                # the clock only advances when the link is empty and a fair round (everything
                # delivered, both sides called) changed nothing: time is not part of the pacing
                if quiet >= 2 and self.in_flight() == 0:
                    if self.res.ticks >= max_ticks:
                        break
                    self.sess.tick(tick_ms)
                    self.res.ticks += 1
                    quiet = 0
            else:
                quiet = 0
        self.res.stuck = True
        return self.res


# ---------------------------------------------------------------------------- fault plans

def rand_plan(rng: Rng, k: int, n_sd: int, n_ds: int, kinds=("drop", "dup", "delay", "flip")) -> dict:
    plan = {}
    for _ in range(k):
        d = "SD" if rng.chance(0.7) or n_ds == 0 else "DS"
        n = n_sd if d == "SD" else n_ds
        idx = rng.randrange(max(1, n))
        kind = rng.choice(kinds)
        if kind == "drop":
            plan[(d, idx)] = ("drop",)
        elif kind == "dup":
            plan[(d, idx)] = ("dup", rng.randrange(0, 4))
        elif kind == "delay":
            plan[(d, idx)] = ("delay", rng.randrange(1, 5))
        else:
            plan[(d, idx)] = ("flip", rng.randrange(64), rng.randrange(8))
    return plan


def plan_text(plan: dict) -> str:
    return ";".join(f"{d}{i}:{'/'.join(str(x) for x in a)}" for (d, i), a in sorted(plan.items())) or "-"
