"""Shared infrastructure of the check harness: paths, Lean build + audit, model driver,
replays, evidence, known findings.  Run with /venv/bin/python (stdlib + the repo's own deps)."""
from __future__ import annotations

import hashlib
import logging
import json
import os
import random
import re
import subprocess
import sys
import time
from pathlib import Path

VERIF = Path(__file__).resolve().parent.parent
REPO = Path(os.environ.get("CFDP_REPO", "/repo"))
LEAN_DIR = VERIF / "lean"
EVIDENCE_DIR = VERIF / "evidence"
REPLAY_DIR = VERIF / "replays"
CORPUS_DIR = VERIF / "corpus"
KNOWN_FINDINGS = VERIF / "known_findings.txt"
DRIVER_BIN = LEAN_DIR / ".lake" / "build" / "bin" / "driver"

# make sure the code under test is /repo's current working tree
sys.path.insert(0, str(REPO / "src"))
os.environ.setdefault("CFDP_PY_VERIF", "1")
logging.disable(logging.CRITICAL)      # the library logs warnings/exceptions for every refused operation

STD_AXIOMS = {"propext", "Classical.choice", "Quot.sound"}
FORBIDDEN = [
    r"\bsorry\b", r"\badmit\b", r"^\s*axiom\s", r"\bnative_decide\b", r"\bbv_decide\b",
    r"\bimplemented_by\b", r"\bunsafe\s", r"maxHeartbeats\s+0\b",
]


def seed_from_env() -> int:
    try:
        return int(os.environ.get("VERIF_SEED", "0"))
    except ValueError:
        return 0


def tier_from_env(default: str = "quick") -> str:
    t = os.environ.get("VERIF_TIER", default)
    return t if t in ("quick", "thorough") else default


class Rng(random.Random):
    """single PRNG; every random choice of a run derives from VERIF_SEED"""

    def chance(self, p: float) -> bool:
        return self.random() < p


# --------------------------------------------------------------------------- Lean side

def sh(cmd, cwd=None, timeout=None, inp=None):
    p = subprocess.run(cmd, cwd=cwd, input=inp, capture_output=True, text=True, timeout=timeout)
    return p.returncode, p.stdout + p.stderr


_built: dict[str, tuple[bool, str]] = {}


def lean_build(targets: list[str]) -> tuple[bool, str]:
    """(re)build the given lake targets in /verif/lean.  Incremental; a no-op if up to date."""
    key = " ".join(targets)
    if key in _built:
        return _built[key]
    rc, out = sh(["lake", "build", *targets], cwd=LEAN_DIR, timeout=3600)
    _built[key] = (rc == 0, out)
    return _built[key]


def project_import_closure(module: str) -> list[str]:
    """the modules of this project that `module` imports, transitively (incl. itself)"""
    seen: list[str] = []
    todo = [module]
    while todo:
        m = todo.pop()
        if m in seen:
            continue
        f = LEAN_DIR / (m.replace(".", "/") + ".lean")
        if not f.exists():
            continue
        seen.append(m)
        for line in f.read_text().splitlines():
            mm = re.match(r"\s*import\s+(CfdpVerif(?:\.\w+)+)", line)
            if mm:
                todo.append(mm.group(1))
            elif line.strip() and not line.startswith(("import", "--", "/-")) and "import" not in line:
                break
    return sorted(seen)


def leanchecker(module: str) -> tuple[bool, str]:
    """independent re-check (Lean's `leanchecker`) of the compiled property module and of every
    project module it imports: every declaration is replayed through the kernel from the .olean files"""
    mods = project_import_closure(module)
    rc, out = sh(["lake", "env", "leanchecker", *mods], cwd=LEAN_DIR, timeout=3600)
    return rc == 0, f"{len(mods)} modules: " + out[-1500:]


def strip_lean_comments(src: str) -> str:
    # remove nested block comments and line comments
    out, i, depth = [], 0, 0
    while i < len(src):
        if src.startswith("/-", i):
            depth += 1
            i += 2
        elif depth and src.startswith("-/", i):
            depth -= 1
            i += 2
        elif depth:
            if src[i] == "\n":
                out.append("\n")
            i += 1
        elif src.startswith("--", i):
            while i < len(src) and src[i] != "\n":
                i += 1
        else:
            out.append(src[i])
            i += 1
    return "".join(out)


def grep_audit() -> list[str]:
    """forbidden constructs outside comments anywhere in the Lean sources"""
    hits = []
    files = sorted(LEAN_DIR.glob("*.lean")) + sorted((LEAN_DIR / "CfdpVerif").rglob("*.lean"))
    for f in files:
        code = strip_lean_comments(f.read_text())
        for ln, line in enumerate(code.splitlines(), 1):
            # string literals may mention the words (driver messages); drop them
            line_ns = re.sub(r'"(?:[^"\\]|\\.)*"', '""', line)
            for pat in FORBIDDEN:
                if re.search(pat, line_ns):
                    hits.append(f"{f.relative_to(VERIF)}:{ln}: {line.strip()}")
    return hits


def property_theorems(pid: str) -> tuple[str, list[str]]:
    """(module, fully qualified names of the property theorems `Cxx_*`) of Props/Cxx.lean"""
    f = LEAN_DIR / "CfdpVerif" / "Props" / f"{pid}.lean"
    src = strip_lean_comments(f.read_text())
    ns_stack: list[str] = []
    names = []
    for line in src.splitlines():
        m = re.match(r"\s*namespace\s+(\S+)", line)
        if m:
            ns_stack.append(m.group(1))
            continue
        m = re.match(r"\s*end\s+(\S+)", line)
        if m and ns_stack and ns_stack[-1] == m.group(1):
            ns_stack.pop()
            continue
        m = re.match(r"\s*(?:private\s+|protected\s+)?theorem\s+(" + pid + r"_\w+)", line)
        if m:
            names.append(".".join(ns_stack + [m.group(1)]))
    return f"CfdpVerif.Props.{pid}", names


def axiom_audit(pid: str) -> tuple[bool, dict[str, list[str]], str]:
    """`#print axioms` of every property theorem; ok iff all ⊆ STD_AXIOMS and none missing."""
    module, names = property_theorems(pid)
    audit_dir = LEAN_DIR / ".audit"
    audit_dir.mkdir(exist_ok=True)
    f = audit_dir / f"Audit{pid}.lean"
    f.write_text(f"import {module}\n" + "".join(f"#print axioms {n}\n" for n in names))
    rc, out = sh(["lake", "env", "lean", str(f)], cwd=LEAN_DIR, timeout=1800)
    res: dict[str, list[str]] = {}
    # output: "'name' depends on axioms: [a, b]" or "'name' does not depend on any axioms"
    for m in re.finditer(r"'([^']+)' depends on axioms: \[([^\]]*)\]", out.replace("\n", " ")):
        res[m.group(1)] = [a.strip() for a in m.group(2).split(",") if a.strip()]
    for m in re.finditer(r"'([^']+)' does not depend on any axioms", out):
        res[m.group(1)] = []
    ok = rc == 0 and len(names) > 0
    for n in names:
        if n not in res or not set(res[n]) <= STD_AXIOMS:
            ok = False
    return ok, res, out


class Driver:
    """the compiled model driver (line protocol); falls back to `lean --run`"""

    def __init__(self):
        ok, out = lean_build(["driver"])
        self.build_ok, self.build_log = ok, out
        if DRIVER_BIN.exists():
            self.cmd = [str(DRIVER_BIN)]
        else:
            self.cmd = ["lake", "env", "lean", "--run", "Main.lean"]

    def run(self, lines: list[str], timeout: int = 1800) -> list[str]:
        inp = "\n".join(lines) + "\n"
        p = subprocess.run(self.cmd, cwd=LEAN_DIR, input=inp, capture_output=True, text=True,
                           timeout=timeout)
        if p.returncode != 0:
            raise RuntimeError(f"model driver failed rc={p.returncode}: {p.stderr[:2000]}")
        out = p.stdout.split("\n")
        if out and out[-1] == "":
            out.pop()
        return out


# --------------------------------------------------------------------------- findings / replays

class Findings:
    """known_findings.txt: lines `finding: property=Cxx sig=<sig> :: text` and
    `fixed: property=Cxx <commit> <what failed>`; never written at run time."""

    def __init__(self):
        self.findings: dict[str, dict[str, str]] = {}
        self.replays: dict[str, dict[str, str]] = {}
        self.fixed: list[str] = []
        if KNOWN_FINDINGS.exists():
            for line in KNOWN_FINDINGS.read_text().splitlines():
                line = line.strip()
                if line.startswith("finding:"):
                    m = re.match(r"finding:\s+property=(\S+)\s+sig=(\S+)\s*(?:replay=(\S+)\s*)?(?:::\s*(.*))?$", line)
                    if m:
                        self.findings.setdefault(m.group(1), {})[m.group(2)] = m.group(4) or ""
                        if m.group(3):
                            self.replays.setdefault(m.group(1), {})[m.group(2)] = m.group(3)
                elif line.startswith("fixed:"):
                    self.fixed.append(line)

    def is_known(self, pid: str, sig: str) -> bool:
        return sig in self.findings.get(pid, {})

    def text(self, pid: str, sig: str) -> str:
        return self.findings.get(pid, {}).get(sig, "")


def write_replay(pid: str, obj: dict) -> Path:
    REPLAY_DIR.mkdir(exist_ok=True)
    blob = json.dumps(obj, sort_keys=True, indent=1, default=str)
    h = hashlib.sha1(blob.encode()).hexdigest()[:12]
    p = REPLAY_DIR / f"{pid}-{h}.json"
    p.write_text(blob)
    return p


def report_violation(pid: str, obj: dict, no_input: bool = False) -> Path:
    obj = dict(obj)
    obj.setdefault("property", pid)
    p = write_replay(pid, obj)
    tail = " no-failing-input-found" if no_input else ""
    print(f"VIOLATION property={pid} replay={p}{tail}", flush=True)
    return p


def write_evidence(pid: str, tier: str, seed: int, level: str, coverage: dict, wall_s: float,
                   violations: int, assumptions: list[str] | None = None) -> None:
    EVIDENCE_DIR.mkdir(exist_ok=True)
    ev = {
        "property_id": pid,
        "tier": tier,
        "seed": seed,
        "level": level,
        "coverage": coverage,
        "assumptions": assumptions or [],
        "wall_s": round(wall_s, 3),
        "violations": violations,
    }
    (EVIDENCE_DIR / f"{pid}.json").write_text(json.dumps(ev, indent=1, default=str))


def script_hash(lines) -> str:
    return hashlib.sha1("\n".join(lines).encode()).hexdigest()[:16]


def repo_src_hash() -> str:
    h = hashlib.sha1()
    for f in sorted((REPO / "src").rglob("*.py")):
        h.update(str(f.relative_to(REPO)).encode())
        h.update(f.read_bytes())
    return h.hexdigest()[:16]


class Stopwatch:
    def __init__(self):
        self.t0 = time.time()

    def s(self) -> float:
        return time.time() - self.t0
