"""Finite-table translator (DESIGN.md §4.2): evaluates the CURRENT /repo code over complete finite
domains and writes the results as literal Lean definitions to lean/CfdpVerif/Gen/Tables.lean.
Only public API is used (state_machine, get_packet_destination, set_handler, dataclass defaults)."""
from __future__ import annotations

import copy
import itertools
import zlib

import common
from session import Session, std_header, strip_len

KINDS = ["md", "fd", "eof", "fin", "ackeof", "ackfin", "nak", "ka", "pr"]
DIRS = ["R", "S"]
MODES = ["A", "U"]
WIDTHS = [1, 2, 4, 8]
F = bytes([0x41, 0x42, 0x43, 0x44, 0x45, 0x46, 0x47, 0x48])   # 2 segments of 4
CKS = zlib.crc32(F).to_bytes(4, "big").hex()


def all_keys():
    return list(itertools.product(KINDS, DIRS, MODES, [0, 1], [0, 1], WIDTHS))


def pdu_text(key, sid=1, did=2, seq=0) -> str:
    kind, d, mode, crc, large, w = key
    h = f"dir={d} mode={mode} crc={crc} large={large} src={sid}/{w} dst={did}/{w} seq={seq}/{w}"
    if kind == "md":
        return f"md {h} closure=1 cks=3 size={len(F)} sname=/a dname=/b msgs=-"
    if kind == "fd":
        return f"fd {h} off=0 data={F[:4].hex()}"
    if kind == "eof":
        return f"eof {h} cond=0 cks={CKS} size={len(F)} floc=-"
    if kind == "fin":
        return f"fin {h} cond=0 deliv=0 fstat=2 floc=-"
    if kind == "ackeof":
        return f"ack {h} of=4 cond=0 tstat=1"
    if kind == "ackfin":
        return f"ack {h} of=5 cond=0 tstat=1"
    if kind == "nak":
        return f"nak {h} sos=0 eos=4 reqs=0-4"
    if kind == "ka":
        return f"ka {h} prog=0"
    if kind == "pr":
        return f"pr {h} resp=0"
    raise ValueError(kind)


# ---------------------------------------------------------------- routing table
def route_table():
    import world
    from cfdppy.handler.common import get_packet_destination
    w = world.World(std_header())
    rows = []
    try:
        for key in all_keys():
            pdu = w.build_pdu("D", pdu_text(key).split())
            try:
                r = get_packet_destination(pdu).name
            except Exception as e:  # noqa: BLE001
                r = "EXC_" + type(e).__name__
            rows.append((key, r))
    finally:
        w.close()
    return rows


# ---------------------------------------------------------------- handler step prefixes
def _mdtext(mode):
    return f"md dir=R mode={mode} crc=0 large=0 src=1/2 dst=2/2 seq=0/2 closure=1 cks=3 size={len(F)} sname=/a dname=/b msgs=-"


def _fd(mode, off):
    return f"fd dir=R mode={mode} crc=0 large=0 src=1/2 dst=2/2 seq=0/2 off={off} data={F[off:off+4].hex()}"


def _eof(mode, cks=CKS):
    return f"eof dir=R mode={mode} crc=0 large=0 src=1/2 dst=2/2 seq=0/2 cond=0 cks={cks} size={len(F)} floc=-"


SRC_STEPS = {
    # name -> (mode, ops-builder)
    "IDLE": None, "PUT": None, "SENDING_METADATA": None, "SENDING_FILE_DATA": None,
    "RETRANSMITTING": None, "WAITING_FOR_EOF_ACK": None, "WAITING_FOR_FINISHED": None,
    "SENDING_ACK_OF_FINISHED": None,
}


def src_prefix(step: str, mode: str) -> list[str] | None:
    put = "put S dest=2/2 src=/a dst=/b mode=- closure=-"
    smd = ["sm S -", "get S", "get S"]
    hdrA = "dir=S mode=A crc=0 large=0 src=1/2 dst=2/2 seq=0/2"
    if step == "IDLE":
        return []
    if step == "PUT":
        return [put]
    if step == "SENDING_METADATA":
        return [put] + smd
    if step == "SENDING_FILE_DATA":
        return [put] + smd * 2
    to_eof = [put] + smd * 4      # md, fd, fd, eof
    if step == "WAITING_FOR_EOF_ACK":
        return to_eof if mode == "A" else None
    if step == "WAITING_FOR_FINISHED":
        if mode == "A":
            return to_eof + [f"sm S pdu ack {hdrA} of=4 cond=0 tstat=1"]
        return to_eof
    if step == "RETRANSMITTING":
        if mode != "A":
            return None
        return to_eof + [f"sm S pdu nak {hdrA} sos=0 eos=8 reqs=0-4", "get S", "get S"]
    if step == "SENDING_ACK_OF_FINISHED":
        if mode != "A":
            return None
        return to_eof + [f"sm S pdu ack {hdrA} of=4 cond=0 tstat=1",
                         f"sm S pdu fin {hdrA} cond=0 deliv=0 fstat=2 floc=-", "get S", "get S"]
    return None


def dst_prefix(step: str, mode: str) -> list[str] | None:
    g = ["get D", "get D"]
    if step == "IDLE":
        return []
    if step == "RECEIVING_FILE_DATA":
        return [f"sm D pdu {_mdtext(mode)}"]
    if step == "TRANSFER_COMPLETION":
        return [f"sm D pdu {_mdtext(mode)}", "cancel D 1/2 0/2"]
    if step == "RECV_FILE_DATA_WITH_CHECK_LIMIT_HANDLING":
        if mode != "U":
            return None
        return [f"sm D pdu {_mdtext(mode)}", f"sm D pdu {_eof(mode)}"]
    if mode != "A":
        return None
    if step == "SENDING_EOF_ACK_PDU":
        return [f"sm D pdu {_mdtext('A')}", f"sm D pdu {_fd('A', 0)}", f"sm D pdu {_fd('A', 4)}",
                f"sm D pdu {_eof('A')}"] + g
    if step == "WAITING_FOR_METADATA":
        return [f"sm D pdu {_fd('A', 0)}"] + g
    if step == "WAITING_FOR_MISSING_DATA":
        return [f"sm D pdu {_mdtext('A')}", f"sm D pdu {_fd('A', 0)}", f"sm D pdu {_eof('A')}"] + g + \
               ["sm D -"] + g
    if step == "WAITING_FOR_FINISHED_ACK":
        return [f"sm D pdu {_mdtext('A')}", f"sm D pdu {_fd('A', 0)}", f"sm D pdu {_fd('A', 4)}",
                f"sm D pdu {_eof('A')}"] + g + ["sm D -"] + g
    return None


SRC_STEP_NAMES = ["IDLE", "PUT", "SENDING_METADATA", "SENDING_FILE_DATA", "RETRANSMITTING",
                  "WAITING_FOR_EOF_ACK", "WAITING_FOR_FINISHED", "SENDING_ACK_OF_FINISHED"]
DST_STEP_NAMES = ["IDLE", "RECEIVING_FILE_DATA", "RECV_FILE_DATA_WITH_CHECK_LIMIT_HANDLING",
                  "SENDING_EOF_ACK_PDU", "WAITING_FOR_METADATA", "WAITING_FOR_MISSING_DATA",
                  "TRANSFER_COMPLETION", "WAITING_FOR_FINISHED_ACK"]


def admission_table(side: str):
    """rows: ((step, handler_mode, key), verdict, state_unchanged) by running the real handler"""
    h = "S" if side == "src" else "D"
    rows = []
    steps = SRC_STEP_NAMES if side == "src" else DST_STEP_NAMES
    for mode in MODES:
        header = std_header(mode=mode, closure=1, files=[("/a", F)], chkms=100000,
                            ack="100000/3", nak="100000/3")
        for step in steps:
            prefix = (src_prefix if side == "src" else dst_prefix)(step, mode)
            if prefix is None:
                continue
            s = Session(header)
            base_state = None
            dirty = False
            for key in all_keys():
                if s is None or dirty:
                    if s is not None:
                        s.close()
                    s = Session(header)
                    dirty = False
                    base_state = None
                if base_state is None:
                    for op in prefix:
                        s.do(op)
                    st = s.do(f"get {h}")       # status probe (queue is empty)
                    base_state = st.line.split(" st=", 1)[1]
                    exp_step = step if step != "PUT" else "IDLE"
                    assert st.step == exp_step, (side, mode, step, st.line)
                st = s.do(f"sm {h} pdu {pdu_text(key)}")
                verdict = st.exc or "ok"
                after = st.line.split(" st=", 1)[1]
                unchanged = after == base_state
                rows.append(((step, mode, key), verdict, unchanged))
                if not unchanged:
                    dirty = True
                    base_state = None
            if s is not None:
                s.close()
    return rows


# ---------------------------------------------------------------- fault table, defaults
def fault_table():
    from spacepackets.cfdp import ConditionCode, FaultHandlerCode
    import world
    f = world.RecFaults()
    defaults = []
    for c in ConditionCode:
        r = f.get_fault_handler(c)
        defaults.append((c.name, int(c), None if r is None else int(r)))
    sets = []
    for c in ConditionCode:
        for code in FaultHandlerCode:
            g = world.RecFaults()
            try:
                g.set_handler(c, code)
                after = g.get_fault_handler(c)
                sets.append((int(c), int(code), "ok", None if after is None else int(after)))
            except Exception as e:  # noqa: BLE001
                sets.append((int(c), int(code), type(e).__name__, None))
    return defaults, sets


# ---------------------------------------------------------------- Lean output
def lean_key(key) -> str:
    kind, d, mode, crc, large, w = key
    return f"⟨.{kind}, .{'toRecv' if d == 'R' else 'toSend'}, .{'ack' if mode == 'A' else 'unack'}, {'true' if crc else 'false'}, {'true' if large else 'false'}, {w}⟩"


PROTOCOL_EXC = ["InvalidPduDirection", "InvalidPduForSourceHandler", "InvalidPduForDestHandler",
                "PduIgnoredForSource", "PduIgnoredForDest", "InvalidDestinationId", "InvalidSourceId",
                "InvalidTransactionSeqNum", "NoRemoteEntityCfgFound", "InvalidNakPdu",
                "UnretrievedPdusToBeSent", "SourceFileDoesNotExist", "ChecksumNotImplemented",
                "FsmNotCalledAfterPacketInsertion"]


def lean_verdict(v: str) -> str:
    if v == "ok":
        return ".ok"
    return "." + v if v in PROTOCOL_EXC else ".internal"


def lean_route(r: str) -> str:
    return {"SOURCE_HANDLER": "some .source", "DEST_HANDLER": "some .dest"}.get(r, "none")


def _group(rows, keyf):
    """lossless compression: rows grouped by (prefix, kind, dir, mode); the 16 sub-configurations
    (crc, large, id width) in enumeration order; printed once if all 16 values agree"""
    groups = {}
    order = []
    for key, val in rows:
        g = keyf(key)
        if g not in groups:
            groups[g] = []
            order.append(g)
        groups[g].append(val)
    out = []
    for g in order:
        vals = groups[g]
        assert len(vals) == 16, (g, len(vals))
        out.append((g, [vals[0]] if all(v == vals[0] for v in vals) else vals))
    return out


def _m(m):
    return ".ack" if m == "A" else ".unack"


def _d(d):
    return ".toRecv" if d == "R" else ".toSend"


def generate() -> str:
    route = route_table()
    src = admission_table("src")
    dst = admission_table("dst")
    defaults, sets = fault_table()
    L = []
    L.append("/- GENERATED by harness/tables.py from /repo's current working tree. Do not edit. -/")
    L.append("import CfdpVerif.Model.Route")
    L.append("namespace Cfdp.Gen")
    L.append("open Cfdp.Route")
    L.append("")
    L.append("/-- (kind, dir, mode) ↦ result of get_packet_destination for the 16 (crc, large, width)")
    L.append("sub-configurations (a single entry = the same for all 16) -/")
    L.append("def routeTable : List ((Kind × Dir × Mode) × List (Option PacketDest)) := [")
    g = _group([(k, lean_route(r)) for k, r in route], lambda k: (k[0], k[1], k[2]))
    L.append(",\n".join(f"  ((.{k}, {_d(d)}, {_m(m)}), [{', '.join(v)}])" for (k, d, m), v in g))
    L.append("]")
    L.append("")
    for name, rows in (("srcAdmission", src), ("dstAdmission", dst)):
        sty = "SrcStep" if name == "srcAdmission" else "DstStep"
        L.append("/-- (step, handler mode, kind, dir, PDU mode) ↦ (verdict, public state unchanged) for the")
        L.append("16 (crc, large, width) sub-configurations (a single entry = the same for all 16) -/")
        L.append(f"def {name} : List (({sty} × Mode × Kind × Dir × Mode) × List (Verdict × Bool)) := [")
        g = _group([((st, m, k), f"({lean_verdict(v)}, {'true' if u else 'false'})") for (st, m, k), v, u in rows],
                   lambda x: (x[0], x[1], x[2][0], x[2][1], x[2][2]))
        L.append(",\n".join(
            f"  ((.{st}, {_m(hm)}, .{k}, {_d(d)}, {_m(pm)}), [{', '.join(v)}])" for (st, hm, k, d, pm), v in g))
        L.append("]")
        L.append("")
    L.append("/-- (condition code, default handler code or none) for every ConditionCode -/")
    L.append("def faultDefaults : List (Int × Option Nat) := [")
    L.append(",\n".join(f"  ({c}, {'none' if r is None else f'some {r}'})" for _, c, r in defaults))
    L.append("]")
    L.append("")
    L.append("/-- set_handler(cond, code): (cond, code, raised ValueError?, handler afterwards) -/")
    L.append("def faultSet : List (Int × Nat × Bool × Option Nat) := [")
    L.append(",\n".join(f"  ({c}, {code}, {'false' if o == 'ok' else 'true'}, {'none' if a is None else f'some {a}'})"
                        for c, code, o, a in sets))
    L.append("]")
    L.append("")
    L.append("end Cfdp.Gen")
    return "\n".join(L) + "\n"


def write_tables() -> bool:
    """returns True if the file content changed"""
    p = common.LEAN_DIR / "CfdpVerif" / "Gen" / "Tables.lean"
    new = generate()
    old = p.read_text() if p.exists() else ""
    if new != old:
        p.write_text(new)
        return True
    return False


if __name__ == "__main__":
    import time
    t = time.time()
    print("changed:", write_tables(), round(time.time() - t, 1), "s")
