"""Property oracles: the property statements (DESIGN.md App. C) evaluated on recorded traces.
They are independent of the Lean model and work on implementation traces and on model traces alike
(same canonical format).  Each oracle returns a list of failures (signature, detail, event index);
a signature identifies the clause and a few discriminators so that known findings can be listed."""
from __future__ import annotations

from gen_handlers import ref_checksum
from link import Cfg
from session import pdu_fields, pdu_kind
from world import kv
from trace import Ev, Trace, ind_parts

PROTOCOL_EXC = {
    "UnretrievedPdusToBeSent", "InvalidPduDirection", "InvalidDestinationId", "InvalidSourceId",
    "InvalidTransactionSeqNum", "NoRemoteEntityCfgFound", "InvalidPduForSourceHandler",
    "InvalidPduForDestHandler", "PduIgnoredForSource", "PduIgnoredForDest", "InvalidNakPdu",
    "SourceFileDoesNotExist", "ChecksumNotImplemented", "FsmNotCalledAfterPacketInsertion",
    "NoRemoteEntityCfgFound", "BusyError",
}
ADMISSION_EXC = {
    "InvalidPduDirection", "InvalidDestinationId", "InvalidSourceId", "InvalidTransactionSeqNum",
    "NoRemoteEntityCfgFound", "InvalidPduForSourceHandler", "InvalidPduForDestHandler",
    "PduIgnoredForSource", "PduIgnoredForDest",
}
FD_STEPS = {"RECEIVING_FILE_DATA", "RECV_FILE_DATA_WITH_CHECK_LIMIT_HANDLING", "WAITING_FOR_MISSING_DATA"}
FH_NAME = {"CANCEL": "cancel", "IGNORE": "ignore", "ABANDON": "abandon", "SUSPEND": "suspend"}
DEFAULT_TABLE = {15: "cancel", 1: "cancel", 2: "cancel", 3: "cancel", 5: "ignore", 6: "cancel",
                 4: "cancel", 7: "cancel", 8: "cancel", 10: "cancel", 11: "ignore"}
COND_OF = {"NO_ERROR": 0, "POSITIVE_ACK_LIMIT_REACHED": 1, "KEEP_ALIVE_LIMIT_REACHED": 2,
           "INVALID_TRANSMISSION_MODE": 3, "FILESTORE_REJECTION": 4, "FILE_CHECKSUM_FAILURE": 5,
           "FILE_SIZE_ERROR": 6, "NAK_LIMIT_REACHED": 7, "INACTIVITY_DETECTED": 8,
           "CHECK_LIMIT_REACHED": 10, "UNSUPPORTED_CHECKSUM_TYPE": 11, "SUSPEND_REQUEST_RECEIVED": 14,
           "CANCEL_REQUEST_RECEIVED": 15}


class Fails(list):
    def add(self, sig: str, detail, idx: int | None = None):
        self.append((sig, detail, idx))


def fault_table(tr: Trace, h: str) -> dict[int, str]:
    """fault-handler table of handler h as configured by the header (sethandler ops applied by caller)"""
    t = dict(DEFAULT_TABLE)
    for l in tr.header:
        w = l.split()
        if w[0] == "F" and w[1] == h:
            for kv in w[2:]:
                c, f = kv.split("=")
                t[COND_OF[c]] = FH_NAME[f]
    return t


def id_val(s: str) -> int:
    return int(s.split("/")[0])


def tid_vals(t: str):
    a, b = t.split(":")
    return id_val(a), id_val(b)


def src_file(tr: Trace, c: Cfg) -> bytes:
    return b"" if c.metadata_only else tr.init_files["S"].get(c.src_path, b"") or b""


# ============================================================================ C01
def is_success(cond, deliv, fstat=None, need_retained=True) -> bool:
    return int(cond) == 0 and int(deliv) == 0 and (not need_retained or int(fstat) == 2)


def o_C01(tr: Trace, c: Cfg) -> Fails:
    f = Fails()
    if c.metadata_only:
        return f
    F = src_file(tr, c)
    path = c.expected_dest_path()
    dfs: dict = dict(tr.init_files.get("D", {}))

    def check(kind: str, e: Ev):
        got = dfs.get(path)
        if got == F:
            return
        if got is not None and c.cks in (2, 3) and got != F and \
                ref_checksum(c.cks, got) == ref_checksum(c.cks, F):
            return            # genuine collision of the negotiated checksum
        f.add(f"C01:{kind}:wrong-file", {"expected": F.hex(), "got": None if got is None else got.hex(),
                                         "event": e.line[:200], "out": e.out[:300]}, e.idx)

    emit_fs: dict = dfs            # filestore when the PDUs now in the queue were generated
    for e in tr.ev:
        if e.h == "D":
            dfs = e.fs
            if e.op != "get" and e.st.ok and (e.prev is None or e.st.rdy > e.prev.rdy):
                emit_fs = e.fs
            for x in e.inds:
                n, p = ind_parts(x)
                if n == "finished" and is_success(p[1], p[2], p[3]):
                    check("dest-indication", e)
            if e.pdu and pdu_kind(e.pdu) == "fin":
                q = pdu_fields(e.pdu)
                if is_success(q["cond"], q["deliv"], q["fstat"]):
                    # the claim is made when the Finished PDU is generated (what happens to the file
                    # afterwards, e.g. a later transaction, is not part of it)
                    cur, dfs = dfs, emit_fs
                    check("finished-pdu", e)
                    dfs = cur
        elif e.h == "S" and (c.eff_mode == "A" or c.eff_closure):
            for x in e.inds:
                n, p = ind_parts(x)
                if n == "finished" and is_success(p[1], p[2], need_retained=False):
                    check("source-indication", e)
    return f


# ============================================================================ C02 / C03
def o_completion(tr: Trace, c: Cfg, res, pid: str) -> Fails:
    """the transfer ran to a successful completion on both sides (C02: fault-free; C03: after faults)"""
    f = Fails()
    if res.stuck:
        f.add(f"{pid}:not-completed:S={tr.final['S'].step if tr.final['S'] else '?'}:"
              f"D={tr.final['D'].step if tr.final['D'] else '?'}", {"rounds": res.rounds, "ticks": res.ticks})
        return f
    for h in "SD":
        st = tr.final[h]
        if st is None or st.state != "IDLE":
            f.add(f"{pid}:not-idle:{h}", {})
    if not c.metadata_only:
        got = tr.final_fs["D"].get(c.expected_dest_path())
        F = src_file(tr, c)
        if got != F:
            f.add(f"{pid}:dest-file-differs", {"expected": F.hex(), "got": None if got is None else got.hex()})
    for h, ind in (("S", c.ind_s), ("D", c.ind_d)):
        fins = [ind_parts(x)[1] for _, x in tr.all_inds(h) if x.startswith("finished(")]
        good = [p for p in fins if is_success(p[1], p[2], need_retained=False)]
        want = 1 if ind[3] == "1" else 0
        if len(good) != want or len(fins) != want:
            f.add(f"{pid}:finished-indications:{h}:{len(good)}/{len(fins)}-want-{want}", {"inds": fins})
    return f


def o_C02(tr: Trace, c: Cfg, res) -> Fails:
    f = o_completion(tr, c, res, "C02")
    for h in "SD":
        for e, x in tr.all_flts(h):
            f.add(f"C02:fault-callback:{h}:{x.split('(')[0]}:{ind_parts(x)[1][1]}", {"cb": x}, e.idx)
    for e in tr.excs():
        f.add(f"C02:exception:{e.h}:{e.exc}", {"op": e.line[:200]}, e.idx)
    return f


def o_C03(tr: Trace, c: Cfg, res) -> Fails:
    return o_completion(tr, c, res, "C03")


# ============================================================================ C05
def write_model(old: bytes, data: bytes, off: int) -> bytes:
    if len(data) == 0:
        return old
    b = bytearray(old)
    if off > len(b):
        b.extend(b"\0" * (off - len(b)))
    b[off:off + len(data)] = data
    return bytes(b)


def o_C05(tr: Trace, h: str = "D") -> Fails:
    """file content == write-model of the accepted File Data; nothing else touched (DESIGN App. C)"""
    f = Fails()
    disp = tr.remote.get(h, {}).get("disp", "0") == "1"
    path: str | None = None           # resolved destination path of the current transaction
    ref: bytes | None = None          # expected content (None: no file / deleted)
    others: dict = dict(tr.init_files.get(h, {}))
    # injected write rejections still queued in the filestore: known only as a range, because the
    # trace does not say whether an ambiguous call attempted a write (a rejection is consumed by the
    # next write attempt, whatever it writes)
    pmin = pmax = 0
    cancelled = False      # the current transaction was cancelled (user, peer's EOF (cancel), or a fault whose
    #                        handler is "notice of cancellation"): only then may its file be discarded
    for e in tr.for_h(h):
        before, after = e.prev, e.st
        if before is None or before.state == "IDLE":
            cancelled = False
        if e.op == "cancel" and after.ok and " ret=true" in e.out:
            cancelled = True
        if any(x.startswith("cancel(") for x in (after.flt if after.ok else [])):
            cancelled = True
        if e.op == "sm" and e.inp is not None and e.exc not in ADMISSION_EXC and pdu_kind(e.inp) == "eof" \
                and pdu_fields(e.inp).get("cond", "0") != "0":
            cancelled = True
        if e.op == "reject":
            pmin += int(e.line.split()[2])
            pmax += int(e.line.split()[2])
            continue
        if not after.ok:
            continue
        cands: list[bytes | None] = [ref]
        new_path = path
        attempt = None          # (written, certain): a write of `written` was attempted (certainly / possibly)
        if e.op == "sm" and e.inp is not None and e.exc not in ADMISSION_EXC:
            k = pdu_kind(e.inp)
            q = pdu_fields(e.inp)
            was_idle = before is None or before.state == "IDLE"
            rdy_blocked = (not was_idle) and before is not None and before.rdy > 0
            if k == "md" and not rdy_blocked:
                # (the Metadata-Recv indication has no switch: it is delivered whenever a Metadata PDU is taken,
                # also when the same call ends the transaction, e.g. late Metadata + checksum failure + abandon)
                accepted = after.fsz != "-" and (was_idle or before.fsz == "-") and after.state == "BUSY" \
                    or (was_idle and e.exc is None and q["sname"] != "-" and q["dname"] != "-") \
                    or any(x.startswith("mdrecv(") for x in after.ind)
                if accepted and q["sname"] != "-" and q["dname"] != "-":
                    # a transaction (re)starts: the previous destination file becomes an ordinary path
                    if path is not None:
                        if ref is None:
                            others.pop(path, None)
                        else:
                            others[path] = ref
                    d = q["dname"]
                    if e.fs_before.get(d, b"") is None or d == "/":
                        d = (d.rstrip("/") + "/" + q["sname"].rsplit("/", 1)[-1])
                    new_path = d
                    cands = [b""]
                elif accepted:
                    if path is not None:
                        if ref is None:
                            others.pop(path, None)
                        else:
                            others[path] = ref
                    new_path, cands = None, [None]
            elif k == "fd" and path is not None and not was_idle and not rdy_blocked \
                    and before.fsz != "-" and ref is not None:
                data = b"" if q["data"] == "-" else bytes.fromhex(q["data"])
                written = write_model(ref, data, int(q["off"]))
                step = before.step
                if e.exc == "ValueError":
                    cands = [ref]                      # lost-segment bookkeeping raised before the write
                elif step in FD_STEPS and e.exc is None:
                    attempt = (written, True)
                    if pmax == 0:
                        cands = [written]
                    elif pmin > 0:
                        cands = [ref]
                    else:
                        cands = [ref, written]
                elif step == "SENDING_EOF_ACK_PDU" and e.exc is None and after.deferred and not before.deferred:
                    # the ACK (EOF) was retrieved and data is missing: this call starts the deferred procedure and
                    # moves on to the missing-data step, which takes the File Data PDU passed with it
                    attempt = (written, True)
                    if pmax == 0:
                        cands = [written]
                    elif pmin > 0:
                        cands = [ref]
                    else:
                        cands = [ref, written]
                elif step in FD_STEPS or step == "SENDING_EOF_ACK_PDU":
                    attempt = (written, False)
                    cands = [ref, written]             # ambiguous: either is consistent with the property
        path = new_path
        # completion with disposition-on-cancellation may delete the incomplete file
        got = e.fs.get(path) if path is not None else None
        if attempt is not None and ref is not None:
            written, certain = attempt
            if got == written and written != ref:
                pmin = pmax = 0                        # the write went through: no rejection was queued
            elif certain and got == ref and written != ref:
                pmin, pmax = max(0, pmin - 1), max(0, pmax - 1)      # this attempt consumed a rejection
            else:
                pmin = max(0, pmin - 1)                # it may have consumed one
        if path is not None:
            ok = any(got == cnd for cnd in cands)
            if not ok and disp and got is None and path not in e.fs:
                if cancelled:
                    # only an INCOMPLETE file may be discarded: the delivery code of this completion (the
                    # Transaction-Finished indication of this call, else the next Finished PDU) says which it is
                    deliv = None
                    for x in after.ind:
                        nm, pp = ind_parts(x)
                        if nm == "finished":
                            deliv = pp[2]
                    if deliv is None:
                        nxt = next((y for y in tr.for_h(h) if y.idx > e.idx and y.op == "get" and y.pdu
                                    and pdu_kind(y.pdu) == "fin"), None)
                        if nxt is not None:
                            deliv = pdu_fields(nxt.pdu).get("deliv")
                    if deliv == "0":
                        f.add("C05:complete-file-discarded-on-cancellation",
                              {"path": path, "op": e.line[:200], "delivery_code": deliv}, e.idx)
                    ok = True
                    cands = [None]
                else:
                    f.add("C05:file-discarded-without-cancellation",
                          {"path": path, "expected": [None if x is None else x.hex() for x in cands],
                           "op": e.line[:200]}, e.idx)
                    ok = True
                    cands = [None]
            if not ok:
                f.add("C05:content-differs-from-write-model",
                      {"path": path, "expected": [None if x is None else x.hex() for x in cands],
                       "got": None if got is None else got.hex(), "op": e.line[:200]}, e.idx)
                ref = got
            else:
                ref = got
        rest = {p: v for p, v in e.fs.items() if p != path}
        exp_rest = {p: v for p, v in others.items() if p != path}
        if rest != exp_rest:
            diff = sorted(set(rest.items()) ^ set(exp_rest.items()), key=str)[:4]
            f.add("C05:other-path-touched", {"diff": str(diff), "op": e.line[:200], "dest": path}, e.idx)
            others = dict(rest)
    return f


# ============================================================================ C06
def o_C06(tr: Trace, c: Cfg, h: str = "D") -> Fails:
    """NAK soundness / exactness on grid histories, acknowledged mode (DESIGN App. C)"""
    f = Fails()
    maxpkt = int(tr.remote[h]["maxpkt"])
    stored: set[int] = set()
    stored_prev: set[int] = set()
    md_known = False
    extent = 0
    eof_size: int | None = None
    eof_cond = 0
    call_naks: list[str] = []
    last_call: Ev | None = None
    tid = None

    def finish_call():
        nonlocal call_naks
        if last_call is None:
            call_naks = []
            return
        e = last_call
        naks, call_naks = call_naks, []
        if not naks:
            # nothing missing after an EOF (no error) => no NAK and the transfer proceeds
            return
        deferred = e.st.ok and e.st.deferred and eof_size is not None
        union: set[int] = set()
        md_req = False
        for p in naks:
            q = pdu_fields(p)
            sos, eos = int(q["sos"]), int(q["eos"])
            reqs = [] if q["reqs"] == "-" else [tuple(int(x) for x in r.split("-")) for r in q["reqs"].split(",")]
            for a, b in reqs:
                if (a, b) == (0, 0):
                    md_req = True
                    if md_known_before[0]:
                        f.add("C06:metadata-request-while-metadata-known", {"nak": p}, e.idx)
                    continue
                if not (a < b):
                    f.add("C06:empty-or-inverted-request", {"nak": p}, e.idx)
                    continue
                if b > extent_now[0]:
                    f.add("C06:request-beyond-known-extent", {"nak": p, "extent": extent_now[0]}, e.idx)
                if set(range(a, b)) & stored_prev:
                    f.add("C06:request-covers-stored-bytes", {"nak": p, "req": [a, b]}, e.idx)
                if not (sos <= a and b <= eos):
                    f.add("C06:scope-does-not-enclose-request", {"nak": p}, e.idx)
                union |= set(range(a, b))
            if deferred:
                if int(q["len"]) > maxpkt:
                    f.add("C06:deferred-nak-exceeds-max-packet-len" + (":metadata-missing" if md_req else ""),
                          {"nak": p, "max_packet_len": maxpkt}, e.idx)
                if (sos, eos) != (0, eof_size):
                    f.add("C06:deferred-nak-scope", {"nak": p, "eof_size": eof_size}, e.idx)
        if deferred and eof_cond == 0:
            want_after = set(range(eof_size)) - stored
            want_before = set(range(eof_size)) - stored_prev
            if union != want_after and union != want_before:
                f.add("C06:deferred-requests-not-exactly-missing",
                      {"requested": sorted(union)[:40], "missing": sorted(want_after)[:40]}, e.idx)
            if not md_known_before[0] and not md_known and not md_req:
                f.add("C06:metadata-missing-not-requested", {}, e.idx)

    md_known_before = [False]
    extent_now = [0]
    for e in tr.for_h(h):
        if e.op == "sm":
            if e.prev is not None and e.prev.state == "BUSY" and e.prev.rdy > 0:
                continue            # refused at the top (unretrieved PDUs): the call did nothing
            finish_call()
            last_call = e
            stored_prev = set(stored)
            md_known_before[0] = md_known
            if e.st.ok and e.st.state == "IDLE" and (e.prev is None or e.prev.state == "IDLE") and e.inp is None:
                continue
            if e.prev is None or e.prev.state == "IDLE":
                stored, stored_prev, md_known, extent, eof_size, eof_cond = set(), set(), False, 0, None, 0
                md_known_before[0] = False
            if e.inp is not None and e.exc not in ADMISSION_EXC and not (e.prev and e.prev.state == "BUSY" and e.prev.rdy > 0):
                k, q = pdu_kind(e.inp), pdu_fields(e.inp)
                if k == "md" and (e.prev is None or e.prev.state == "IDLE" or e.prev.fsz == "-"):
                    md_known = e.st.ok and e.st.fsz != "-"
                    if md_known and int(q["size"]) > extent and eof_size is None:
                        pass
                elif k == "fd":
                    o = int(q["off"])
                    l = 0 if q["data"] == "-" else len(q["data"]) // 2
                    extent = max(extent, o + l)
                    if md_known and e.prev is not None and (e.prev.step in FD_STEPS or e.prev.step == "SENDING_EOF_ACK_PDU") \
                            and e.exc is None and e.fs.get(None, 1) is not None:
                        # stored iff the write happened: visible in the snapshot delta or data already equal
                        stored |= set(range(o, o + l)) if _fd_written(e, o, l) else set()
                elif k == "eof":
                    if eof_size is None:
                        eof_size = int(q["size"])
                        eof_cond = int(q["cond"])
                    extent = max(extent, int(q["size"]))
            extent_now[0] = extent
            if e.st.ok and e.st.state == "IDLE":
                pass
        elif e.op == "get" and e.pdu is not None and pdu_kind(e.pdu) == "nak":
            call_naks.append(e.pdu)
    finish_call()
    return f


def _fd_written(e: Ev, o: int, l: int) -> bool:
    """did the call store bytes [o, o+l) of the inbound File Data?  Decided from the filestore: the
    destination file (the only file that may change) holds the PDU's data at that offset."""
    q = pdu_fields(e.inp)
    data = b"" if q["data"] == "-" else bytes.fromhex(q["data"])
    for p, v in e.fs.items():
        if v is not None and e.fs_before.get(p) is not None or (v is not None and p not in e.fs_before):
            if v[o:o + l] == data and len(v) >= o + l:
                return True
    return False


# ============================================================================ C07 / C08
def hdr_of(p: str) -> tuple:
    q = pdu_fields(p)
    return (q["mode"], q["crc"], q["src"], q["dst"], q["seq"])


PROPER_DIR = {"md": "R", "fd": "R", "eof": "R", "fin": "S", "nak": "S", "ka": "S", "pr": "R"}


def o_C07(tr: Trace, c: Cfg, h: str = "S") -> Fails:
    """stream shape of an undisturbed run: Metadata, tiles (one per call), EOF; header consistency;
    length bounds.  Applied per accepted put request of the session."""
    f = Fails()
    evs = tr.for_h(h)
    F = src_file(tr, c)
    n = len(F)
    maxpkt = int(tr.remote[h]["maxpkt"])
    seg = c.seg_len
    if seg <= 0:
        # max_packet_len leaves no room for file data: the derived segment length is zero (endless
        # empty File Data PDUs) or negative (ValueError at transaction start)
        bad = [e for e in evs if (e.op == "get" and e.pdu and pdu_kind(e.pdu) == "fd" and pdu_fields(e.pdu)["data"] == "-")
               or (e.op == "sm" and e.exc == "ValueError")]
        if bad and n > 0:
            f.add("C07:segment-length-not-positive", {"seg_len": seg, "maxpkt": maxpkt, "out": bad[0].out[:160]}, bad[0].idx)
        return f
    i = 0
    while i < len(evs):
        e = evs[i]
        i += 1
        if not (e.op == "put" and e.st.ret == "true"):
            continue
        if not c.metadata_only:
            # the source file as it is when the request is made (the user may rewrite it between transactions)
            F = e.fs_before.get(c.src_path, b"") or b""
            n = len(F)
        # collect (call index, pdu) until the handler is idle again or the next put
        pdus: list[tuple[int, str, Ev]] = []
        call = 0
        disturbed = False
        j = i
        while j < len(evs) and evs[j].op != "put":
            x = evs[j]
            if x.op == "sm":
                call += 1
                if x.inp is not None or x.exc is not None:
                    disturbed = True
            elif x.op in ("cancel", "reset"):
                disturbed = True
            elif x.op == "get" and x.pdu is not None and call > 0:
                pdus.append((call, x.pdu, x))      # (call 0: left over from the previous transaction)
            if x.flts:
                disturbed = True
            j += 1
        i = j
        if not pdus:
            continue
        # header consistency and length bounds hold for every PDU, disturbed or not
        h0 = hdr_of(pdus[0][1])
        w_src, w_dst = h0[2].split("/")[1], h0[3].split("/")[1]
        for _, p, x in pdus:
            k = pdu_kind(p)
            q = pdu_fields(p)
            if hdr_of(p) != h0:
                f.add(f"C07:header-inconsistent:{k}", {"first": pdus[0][1][:120], "pdu": p[:160]}, x.idx)
            if w_src != w_dst or int(w_src) != c.idw:
                f.add("C07:entity-id-widths", {"pdu": p[:160]}, x.idx)
            if q["mode"] != c.eff_mode or int(q["crc"]) != c.crc:
                f.add(f"C07:mode-or-crc-flag:{k}", {"pdu": p[:160]}, x.idx)
            want_dir = "R" if k != "ack" else ("R" if q["of"] == "5" else "S")
            if q["dir"] != want_dir:
                f.add(f"C07:direction:{k}", {"pdu": p[:160]}, x.idx)
            if "wire" in q:
                f.add(f"C07:not-parsable:{k}:{q['wire']}", {"pdu": p[:200]}, x.idx)
            if k in ("fd", "eof", "ack") and int(q["len"]) > maxpkt:
                f.add(f"C07:{k}-exceeds-max-packet-len", {"pdu": p[:160], "max_packet_len": maxpkt}, x.idx)
            if k == "fd" and q["data"] != "-" and len(q["data"]) // 2 > seg:
                f.add("C07:file-data-longer-than-segment-length", {"pdu": p[:160], "seg": seg}, x.idx)
        if not c.metadata_only:
            # also in a disturbed run (NAKs served, timers, repeated EOFs): every EOF (no error) announces the
            # whole file — its size and its checksum (as long as the user has not rewritten the file meanwhile)
            for cl, p, x in pdus:
                if pdu_kind(p) != "eof":
                    continue
                qe = pdu_fields(p)
                if qe["cond"] == "0" and x.fs_before.get(c.src_path) == F and \
                        (int(qe["size"]) != n or qe["cks"] != ref_checksum(c.cks, F).hex()):
                    f.add("C07:eof-fields", {"pdu": p[:200], "n": n, "cks": ref_checksum(c.cks, F).hex(),
                                             "disturbed": disturbed}, x.idx)
                    break
        if disturbed:
            continue
        # undisturbed: exact stream shape
        kinds = [pdu_kind(p) for _, p, _ in pdus]
        if kinds[0] != "md":
            f.add("C07:first-pdu-not-metadata", {"kinds": kinds[:5]}, pdus[0][2].idx)
            continue
        q = pdu_fields(pdus[0][1])
        if c.metadata_only:
            if q["sname"] != "-" or q["dname"] != "-":
                f.add("C07:metadata-only-fields", {"pdu": pdus[0][1][:200]}, pdus[0][2].idx)
            continue
        if (int(q["size"]), q["sname"], q["dname"], int(q["cks"]), q["closure"]) != \
                (n, c.src_path, c.dst_path, c.cks, str(int(c.eff_closure))):
            f.add("C07:metadata-fields", {"pdu": pdus[0][1][:200]}, pdus[0][2].idx)
        fds = [(cl, p, x) for cl, p, x in pdus if pdu_kind(p) == "fd"]
        eofs = [(cl, p, x) for cl, p, x in pdus if pdu_kind(p) == "eof"]
        complete = len(eofs) > 0
        pos = 0
        calls_seen = set()
        for cl, p, x in fds:
            qq = pdu_fields(p)
            data = b"" if qq["data"] == "-" else bytes.fromhex(qq["data"])
            if int(qq["off"]) != pos or data != F[pos:pos + len(data)] or len(data) == 0 \
                    or (len(data) != min(seg, n - pos)):
                f.add("C07:tiling", {"pdu": p[:160], "expected_offset": pos, "seg": seg, "n": n}, x.idx)
                break
            pos += len(data)
            if cl in calls_seen:
                f.add("C07:more-than-one-file-data-per-call", {"pdu": p[:160]}, x.idx)
            calls_seen.add(cl)
        if complete:
            if pos != n:
                f.add("C07:tiles-do-not-cover-file", {"covered": pos, "n": n}, eofs[0][2].idx)
            qe = pdu_fields(eofs[0][1])
            if int(qe["size"]) != n or qe["cks"] != ref_checksum(c.cks, F).hex() or qe["cond"] != "0":
                f.add("C07:eof-fields", {"pdu": eofs[0][1][:200], "n": n,
                                         "cks": ref_checksum(c.cks, F).hex()}, eofs[0][2].idx)
            order = [k for k in kinds if k in ("md", "fd", "eof")]
            if order != ["md"] + ["fd"] * len(fds) + ["eof"] * len(eofs):
                f.add("C07:order", {"kinds": kinds}, eofs[0][2].idx)
    return f


def expected_retransmission(c: Cfg, F: bytes, reqs, seg: int):
    """(list of expected PDUs as ('md',) | ('fd', off, data)) for a list of valid requests"""
    out = []
    for a, b in reqs:
        if (a, b) == (0, 0):
            out.append(("md",))
            continue
        o = a
        while o < b:
            l = min(seg, b - o)
            out.append(("fd", o, F[o:o + l]))
            o += l
    return out


# ============================================================================ C09 (EOF clause)
def o_C09_eof(tr: Trace, h: str = "S") -> Fails:
    """every EOF PDU the source emits — the first one, an EOF (cancel), and every one re-sent by the positive
    ACK procedure — carries the checksum (negotiated type) of the bytes it has sent: the prefix of the source
    file whose length is the EOF's own file size field.  The reference content is the source file as the
    session's filestore view has it when the PDU is retrieved (`file` lines between transactions count)."""
    f = Fails()
    cks_t = int(tr.remote[h]["cks"])
    src: str | None = None          # source path of the running put request (None: metadata only)
    active = False
    unstable = False                # the source file was rewritten while the transaction ran
    sent_end: int | None = None     # end of the File Data sent so far (bytes sent)
    for e in tr.ev:
        if e.op in ("file", "rm") and active:
            t = e.line.split()
            if len(t) > 2 and t[1] == h and t[2] == src:
                unstable = True
            continue
        if e.h != h:
            continue
        if e.op == "put" and e.st.ret == "true":
            q = dict(x.split("=", 1) for x in e.line.split()[2:] if "=" in x)
            src = None if q.get("src", "-") == "-" else q["src"]
            active, unstable, sent_end = True, False, 0
            continue
        if e.op != "get" or e.pdu is None or not active:
            continue
        k = pdu_kind(e.pdu)
        if k == "fd" and sent_end is not None:
            q = pdu_fields(e.pdu)
            n = 0 if q["data"] == "-" else len(q["data"]) // 2
            sent_end = max(sent_end, int(q["off"]) + n)
        if k != "eof":
            continue
        q = pdu_fields(e.pdu)
        size = int(q["size"])
        if src is None:
            want = bytes(4)
        else:
            F = e.fs_before.get(src)
            if F is None or unstable or size > len(F):
                continue
            want = ref_checksum(cks_t, F[:size]) if cks_t in (0, 2, 3, 15) else None
        if want is not None and q["cks"] != want.hex():
            f.add("C09:eof-checksum-not-of-the-bytes-sent",
                  {"pdu": e.pdu[:200], "size_field": size, "bytes_sent": sent_end,
                   "checksum_of_prefix": want.hex(), "cond": q["cond"]}, e.idx)
    return f


def o_C08(tr: Trace, c: Cfg, h: str = "S") -> Fails:
    f = Fails()
    if c.metadata_only:
        return f
    evs = tr.for_h(h)
    F = src_file(tr, c)
    n = len(F)
    seg = c.seg_len
    orig_pos = 0
    md0: str | None = None
    active = False
    cancelled = False
    i = 0
    while i < len(evs):
        e = evs[i]
        i += 1
        if e.op == "put" and e.st.ret == "true":
            orig_pos, md0, active, cancelled = 0, None, True, False
            continue
        if e.op in ("cancel", "reset") or e.flts:
            cancelled = True
        if not active or e.op != "sm":
            continue
        # PDUs retrieved after this call, up to the next non-get op
        got = []
        j = i
        while j < len(evs) and evs[j].op == "get":
            if evs[j].pdu is not None:
                got.append(evs[j].pdu)
            j += 1
        drained = j < len(evs) or True
        if e.prev is not None and e.prev.rdy != 0:
            active = False          # PDUs of earlier calls were not retrieved: no per-call attribution
            continue
        if e.inp is not None and pdu_kind(e.inp) == "nak" and e.prev is not None and \
                e.prev.step == "SENDING_FILE_DATA" and e.prev.prog == n and got and pdu_kind(got[0]) == "eof":
            # the last tile was retrieved: the step advances to SENDING_EOF before the NAK is looked at
            qe = pdu_fields(got[0])
            if qe["cond"] == "0" and (int(qe["size"]) != n or qe["cks"] != ref_checksum(c.cks, F).hex()):
                f.add("C08:eof-changed", {"pdu": got[0][:200]}, e.idx)
            got = got[1:]
        if e.inp is not None and pdu_kind(e.inp) == "nak" and e.exc not in ADMISSION_EXC \
                and e.exc != "UnretrievedPdusToBeSent" and e.prev is not None and e.prev.state == "BUSY" \
                and e.prev.step in ("SENDING_METADATA", "SENDING_FILE_DATA", "RETRANSMITTING",
                                    "WAITING_FOR_EOF_ACK", "WAITING_FOR_FINISHED") \
                and pdu_fields(e.inp)["mode"] == "A" and c.eff_mode == "A" and e.prev.rdy == 0:
            q = pdu_fields(e.inp)
            reqs = [] if q["reqs"] == "-" else [tuple(int(x) for x in r.split("-")) for r in q["reqs"].split(",")]
            prog = e.prev.prog
            valid = [(a, b) == (0, 0) or (a <= b <= prog) for a, b in reqs]
            fds = [p for p in got if pdu_kind(p) == "fd"]
            for p in fds:
                qq = pdu_fields(p)
                o = int(qq["off"])
                d = b"" if qq["data"] == "-" else bytes.fromhex(qq["data"])
                if o + len(d) > n or d != F[o:o + len(d)] or len(d) == 0 or len(d) > seg:
                    f.add("C08:retransmitted-data-not-file-data", {"pdu": p[:160], "nak": e.inp[:160]}, e.idx)
            if all(valid):
                if e.exc is not None:
                    f.add(f"C08:valid-nak-raised:{e.exc}", {"nak": e.inp[:200], "progress": prog}, e.idx)
                else:
                    exp = expected_retransmission(c, F, reqs, seg)
                    act = []
                    for p in got:
                        k = pdu_kind(p)
                        if k == "md":
                            act.append(("md",))
                            if md0 is not None and p != md0:
                                f.add("C08:metadata-differs-from-original", {"pdu": p[:200]}, e.idx)
                        elif k == "fd":
                            qq = pdu_fields(p)
                            act.append(("fd", int(qq["off"]), b"" if qq["data"] == "-" else bytes.fromhex(qq["data"])))
                        else:
                            act.append((k,))
                    if act != exp:
                        f.add("C08:retransmission-differs", {"nak": e.inp[:200], "expected": str(exp)[:300],
                                                             "actual": str(act)[:300]}, e.idx)
            else:
                if e.exc != "InvalidNakPdu":
                    f.add(f"C08:invalid-request-not-rejected:{e.exc}", {"nak": e.inp[:200], "progress": prog}, e.idx)
                # whatever was emitted for earlier valid requests must still be file data (checked above)
        elif e.exc is None:
            for p in got:
                k = pdu_kind(p)
                if k == "md" and md0 is None:
                    md0 = p
                elif k == "fd" and not cancelled:
                    qq = pdu_fields(p)
                    o = int(qq["off"])
                    d = b"" if qq["data"] == "-" else bytes.fromhex(qq["data"])
                    if o != orig_pos:
                        f.add("C08:original-tile-skipped-or-repeated", {"pdu": p[:160], "expected_offset": orig_pos}, e.idx)
                    orig_pos = o + len(d)
                elif k == "eof" and not cancelled:
                    qe = pdu_fields(p)
                    if qe["cond"] == "0" and (int(qe["size"]) != n or qe["cks"] != ref_checksum(c.cks, F).hex()):
                        f.add("C08:eof-changed", {"pdu": p[:200]}, e.idx)
        if e.st.ok and e.st.state == "IDLE":
            active = False
    # resumption: outside retransmission the step of a transaction only moves forward (a resume in an
    # earlier step would repeat original PDUs or wait for an acknowledgement already received)
    rank = {"SENDING_METADATA": 1, "SENDING_FILE_DATA": 2, "SENDING_EOF": 3, "WAITING_FOR_EOF_ACK": 4,
            "WAITING_FOR_FINISHED": 5, "SENDING_ACK_OF_FINISHED": 6, "NOTICE_OF_COMPLETION": 7}
    last, naks, disturbed = 0, 0, False
    for e in evs:
        if e.op == "put" and e.st.ret == "true":
            last, naks, disturbed = 0, 0, False
        if e.op in ("cancel", "reset") or e.flts:
            disturbed = True
        if not e.st.ok or e.st.state != "BUSY":
            if e.st.ok:
                last, naks, disturbed = 0, 0, False
            continue
        if e.st.step == "RETRANSMITTING":
            naks += 1
            continue
        r = rank.get(e.st.step, 0)
        if r and r < last and naks > 0 and not disturbed:
            f.add("C08:resumed-in-earlier-step", {"step": e.st.step, "op": e.line[:160]}, e.idx)
        last = max(last, r)
    return f


# ============================================================================ C10
def o_C10(tr: Trace) -> Fails:
    f = Fails()
    qlen = {h: 0 for h in tr.kinds}
    empty: dict[str, bool] = {}
    for e in tr.ev:
        if e.h is None or e.h not in qlen:
            continue
        h = e.h
        before = e.prev
        q_before = qlen[h]
        if e.st.ok and before is not None:
            if e.op == "put" and e.st.ret == "true":
                pass
            elif e.op == "reset" and tr.kinds[h] == "src":
                qlen[h] = 0
            else:
                qlen[h] = max(0, qlen[h] + e.st.rdy - before.rdy)
        elif e.st.ok:
            qlen[h] = max(0, e.st.rdy)
        was_empty = empty.get(h, False)
        if e.op == "get" and e.st.ok and e.st.ret == "None":
            empty[h] = True
        elif e.op in ("sm", "put", "cancel", "reset"):
            empty[h] = False if not (e.op == "reset" and tr.kinds[h] == "src") else True
        if e.exc is None:
            continue
        inp = pdu_kind(e.inp) if e.inp else "-"
        step = before.step if before else "IDLE"
        if e.exc == "UnretrievedPdusToBeSent" and was_empty:
            f.add(f"C10:unretrieved-raised-after-queue-was-drained:{tr.kinds[h]}:{e.op}",
                  {"op": e.line[:240], "out": e.out[:200]}, e.idx)
            continue
        if e.exc not in PROTOCOL_EXC:
            f.add(f"C10:internal-error:{e.exc}:{tr.kinds[h]}:{e.op}:{step}:{inp}", {"op": e.line[:240], "out": e.out[:200]}, e.idx)
        elif e.exc == "UnretrievedPdusToBeSent" and q_before == 0:
            f.add(f"C10:unretrieved-raised-with-empty-queue:{tr.kinds[h]}:{e.op}:{step}:{inp}",
                  {"op": e.line[:240], "out": e.out[:200]}, e.idx)
        elif e.exc in ADMISSION_EXC and before is not None and e.st.ok:
            a, b = e.st, before
            same = (a.state, a.step, a.prog, a.rdy, a.fsz, a.tid, a.chk, a.nak, a.ack) == \
                   (b.state, b.step, b.prog, b.rdy, b.fsz, b.tid, b.chk, b.nak, b.ack)
            # (the filestore column is a delta against the handler's previous line: a user action on the
            # filestore in between shows up here; compare the filestores themselves)
            if not same or e.fs != e.fs_before or a.ind or a.flt:
                f.add(f"C10:rejected-pdu-changed-state:{e.exc}:{tr.kinds[h]}:{step}:{inp}",
                      {"op": e.line[:240], "before": b.line[:200], "after": a.line[:200]}, e.idx)
    return f


# ============================================================================ C12
def o_C12(tr: Trace, c: Cfg) -> Fails:
    f = Fails()
    F = src_file(tr, c)
    disp = c.disp == 1
    for h in tr.kinds:
        evs = tr.for_h(h)
        local = tr.hcfg[h]["id"]
        for i, e in enumerate(evs):
            if e.op != "cancel":
                continue
            t = e.line.split()
            want_tid = (id_val(t[2]), id_val(t[3]))
            before = e.prev
            busy = before is not None and before.state == "BUSY"
            match = busy and before.tid != "-" and tid_vals(before.tid) == want_tid
            if e.exc is not None:
                if e.exc == "UnretrievedPdusToBeSent" and busy:
                    continue      # allowed while PDUs are queued on a busy handler (C10)
                f.add(f"C12:cancel-raised:{tr.kinds[h]}:{e.exc}:{'busy' if busy else 'idle'}", {"op": e.line}, e.idx)
                continue
            if (e.st.ret == "true") != bool(match):
                f.add(f"C12:cancel-return-value:{tr.kinds[h]}:{e.st.ret}", {"op": e.line, "before": before.line[:200] if before else None}, e.idx)
                continue
            if not match:
                continue
            rest = evs[i + 1:]
            if tr.kinds[h] == "src":
                if before.step in ("WAITING_FOR_EOF_ACK", "WAITING_FOR_FINISHED", "SENDING_ACK_OF_FINISHED",
                                   "NOTICE_OF_COMPLETION") and before.tid != "-":
                    # cancellation after the EOF was sent: still signalled with an EOF (cancel) unless a
                    # previous cancel exchange is in progress (then the transaction is abandoned)
                    pass
                nxt = next((x for x in rest if x.op == "get" and x.pdu is not None), None)
                abandoned = any(x.startswith("abandon(") for x in e.flts)
                if abandoned:
                    # legitimate only while a cancellation of THIS transaction is already in progress
                    started = False
                    for x in reversed(evs[:i]):
                        if x.op == "put" and x.st.ret == "true":
                            break
                        if (x.op == "cancel" and x.st.ret == "true") or any(y.startswith("cancel(") for y in x.flts):
                            started = True
                            break
                    if not started:
                        f.add("C12:cancel-abandoned-without-cancellation-in-progress", {"flt": e.flts}, e.idx)
                    continue
                if nxt is None or pdu_kind(nxt.pdu) != "eof":
                    f.add("C12:next-pdu-after-cancel-not-eof", {"next": nxt.pdu[:160] if nxt else None}, e.idx)
                    continue
                q = pdu_fields(nxt.pdu)
                sent = before.prog
                if q["cond"] != "15" or int(q["size"]) != sent or \
                        (not c.metadata_only and q["cks"] != ref_checksum(c.cks, F[:sent]).hex()):
                    f.add("C12:eof-cancel-fields", {"pdu": nxt.pdu[:200], "bytes_sent": sent,
                                                    "prefix_cks": ref_checksum(c.cks, F[:sent]).hex()}, nxt.idx)
                for x in rest:
                    if x.op == "put":
                        break
                    if x.op == "get" and x.pdu is not None and pdu_kind(x.pdu) == "fd" and \
                            int(pdu_fields(x.pdu)["off"]) >= sent:
                        f.add("C12:new-file-data-after-cancel", {"pdu": x.pdu[:160]}, x.idx)
                        break
            else:
                mode = before_mode(tr, evs, i)
                fin_ind = None
                fin_pdu = None
                for x in rest:
                    if fin_ind is None:
                        for y in x.inds:
                            if y.startswith("finished("):
                                fin_ind = ind_parts(y)[1]
                    if x.op == "get" and x.pdu is not None and pdu_kind(x.pdu) == "fin" and fin_pdu is None:
                        fin_pdu = pdu_fields(x.pdu)
                    if x.st.ok and x.st.state == "IDLE":
                        break
                if tr.hcfg[h].get("ind", "1111")[3] == "1" and rest and any(x.op == "sm" and x.exc is None for x in rest):
                    if fin_ind is None or fin_ind[1] != "15":
                        f.add("C12:dest-finished-indication-condition", {"ind": fin_ind}, e.idx)
                if fin_pdu is not None:
                    if fin_pdu["cond"] != "15" or fin_pdu["floc"] == "-" or id_val(fin_pdu["floc"]) != id_val(local):
                        f.add("C12:dest-finished-pdu-after-cancel", {"pdu": str(fin_pdu)[:200], "local": local}, e.idx)
    # EOF (cancel) received from the sender
    for h in [x for x in tr.kinds if tr.kinds[x] == "dst"]:
        evs = tr.for_h(h)
        for i, e in enumerate(evs):
            if e.op != "sm" or e.inp is None or pdu_kind(e.inp) != "eof" or e.exc is not None:
                continue
            q = pdu_fields(e.inp)
            if q["cond"] == "0" or e.prev is None or e.prev.state != "BUSY" or e.prev.fsz == "-":
                continue
            if e.prev.step not in ("RECEIVING_FILE_DATA", "RECV_FILE_DATA_WITH_CHECK_LIMIT_HANDLING") or e.prev.rdy > 0:
                continue
            fin_ind = None
            fin_pdu = None
            end = None
            for x in evs[i:]:
                for y in x.inds:
                    if y.startswith("finished(") and fin_ind is None:
                        fin_ind = ind_parts(y)[1]
                if x.op == "get" and x.pdu is not None and pdu_kind(x.pdu) == "fin" and fin_pdu is None:
                    fin_pdu = pdu_fields(x.pdu)
                if x.op == "cancel" and x.st.ret == "true":
                    fin_ind = fin_pdu = "skip"
                    break
                if x.st.ok and x.st.state == "IDLE":
                    end = x
                    break
            if fin_ind == "skip":
                continue
            if fin_ind is not None and fin_ind[1] != q["cond"]:
                f.add("C12:eof-cancel-condition-not-reported", {"ind": fin_ind, "eof": e.inp[:160]}, e.idx)
            if isinstance(fin_pdu, dict):
                sender = pdu_fields(e.inp)["src"]
                if fin_pdu["cond"] != q["cond"] or fin_pdu["floc"] == "-" or id_val(fin_pdu["floc"]) != id_val(sender):
                    f.add("C12:eof-cancel-finished-pdu", {"pdu": str(fin_pdu)[:200]}, e.idx)
            if end is not None and fin_ind is not None:
                deleted = int(fin_ind[3]) == 0
                incomplete = int(fin_ind[2]) == 1
                if deleted != (disp and incomplete):
                    f.add("C12:disposition-on-cancellation", {"ind": fin_ind, "disp": disp}, end.idx)
    return f


def before_mode(tr, evs, i):
    return None


# ============================================================================ C14
def o_C14(tr: Trace) -> Fails:
    """every fault callback is of the kind the table maps its condition to; transaction ids present;
    abandon leaves the handler idle; (carve-out: a fault during a cancel exchange abandons)"""
    f = Fails()
    for h in tr.kinds:
        table = fault_table(tr, h)
        for e in tr.for_h(h):
            if e.op == "sethandler":
                # the configuration API takes exactly the conditions of the table (ValueError otherwise)
                w = e.line.split()
                cond = COND_OF[w[2]]
                if cond in DEFAULT_TABLE and e.exc is not None:
                    f.add("C14:set-handler-refused-a-condition-of-the-table", {"op": e.line, "out": e.out[:120]}, e.idx)
                if cond not in DEFAULT_TABLE and e.exc != "ValueError":
                    f.add("C14:set-handler-accepted-a-condition-outside-the-table",
                          {"op": e.line, "out": e.out[:120]}, e.idx)
                if e.exc is None:
                    table[cond] = FH_NAME[w[3]]
                continue
            for x in e.flts:
                kind, p = ind_parts(x)
                cond = int(p[1])
                if p[0] == "None":
                    f.add(f"C14:callback-without-transaction-id:{kind}:{cond}", {"cb": x}, e.idx)
                want = table.get(cond)
                if kind != want:
                    # carve-out: fault while the cancel exchange is in progress -> abandoned
                    if kind == "abandon" and e.prev is not None and e.prev.step in (
                            "WAITING_FOR_EOF_ACK", "WAITING_FOR_FINISHED_ACK", "WAITING_FOR_FINISHED",
                            "SENDING_FILE_DATA", "SENDING_EOF", "RETRANSMITTING", "SENDING_METADATA",
                            "SENDING_ACK_OF_FINISHED"):
                        if e.st.ok and e.st.state != "IDLE":
                            f.add(f"C14:abandon-not-idle:{tr.kinds[h]}:{cond}", {"cb": x}, e.idx)
                        continue
                    f.add(f"C14:wrong-callback-kind:{tr.kinds[h]}:{cond}:{kind}-want-{want}", {"cb": x}, e.idx)
                if kind == "cancel" and tr.kinds[h] == "dst" and e.st.ok and e.exc is None and want == "cancel" \
                        and e.st.state == "BUSY" and e.st.step in (
                            "RECEIVING_FILE_DATA", "RECV_FILE_DATA_WITH_CHECK_LIMIT_HANDLING",
                            "WAITING_FOR_METADATA", "WAITING_FOR_MISSING_DATA"):
                    # notice of cancellation: the transaction proceeds to its completion, it does not go
                    # on receiving
                    f.add(f"C14:cancel-without-effect:{tr.kinds[h]}:{cond}:{e.st.step}", {"cb": x}, e.idx)
                if kind == "abandon" and e.st.ok and (e.st.state != "IDLE" or e.exc is not None):
                    f.add(f"C14:abandon-not-idle:{tr.kinds[h]}:{cond}:{e.exc}", {"cb": x, "out": e.out[:200]}, e.idx)
                if e.exc is not None and e.exc not in PROTOCOL_EXC:
                    f.add(f"C14:fault-handling-raised:{tr.kinds[h]}:{cond}:{kind}:{e.exc}", {"cb": x}, e.idx)
            # (how often a callback fires per declaration is decided against the model, which emits one
            # callback per `_declare_fault` by construction: `classify_disagreement` in handler_props.py.
            # A fault that persists — e.g. NAK limit reached with a handler that does not cancel — is
            # declared again by every evaluation of the procedure, also twice within one call.)
            for x in e.inds:
                n, p = ind_parts(x)
                if p and p[0] == "None":
                    f.add(f"C14:indication-without-transaction-id:{n}", {"ind": x}, e.idx)
    return f


# ============================================================================ C15
def o_C15(tr: Trace) -> Fails:
    f = Fails()
    for h in tr.kinds:
        ind = tr.hcfg[h].get("ind", "1111")
        evs = tr.for_h(h)
        phase: dict[str, int] = {}
        cur_tid = None
        for i, e in enumerate(evs):
            kinds = [ind_parts(x)[0] for x in e.inds]
            # gating
            for name, flag in (("eofsent", 0), ("eofrecv", 1), ("segrecv", 2), ("finished", 3)):
                if ind[flag] == "0" and name in kinds:
                    f.add(f"C15:disabled-indication-delivered:{name}", {"inds": e.inds}, e.idx)
            if not e.st.ok:
                continue
            if tr.kinds[h] == "dst":
                # parameters against the inbound PDU
                if e.inp is not None and e.exc is None:
                    k, q = pdu_kind(e.inp), pdu_fields(e.inp)
                    for x in e.inds:
                        n, p = ind_parts(x)
                        if n == "segrecv":
                            if k != "fd" or int(p[1]) != int(q["off"]) or \
                                    int(p[2]) != (0 if q["data"] == "-" else len(q["data"]) // 2):
                                f.add("C15:segrecv-parameters", {"ind": x, "pdu": e.inp[:160]}, e.idx)
                        if n == "mdrecv":
                            size = q.get("size")
                            want = [p[0], q["src"], size if q["sname"] != "-" else "-", q["sname"], q["dname"]]
                            if k != "md" or p[:5] != want or msgs_norm(p[5]) != msgs_norm(q.get("msgs", "-")):
                                f.add("C15:mdrecv-parameters", {"ind": x, "pdu": e.inp[:200]}, e.idx)
                        own = e.prev is None or e.prev.state == "IDLE" or e.prev.tid == "-" or \
                            tid_vals(e.prev.tid) == (id_val(q["src"]), id_val(q["seq"]))
                        if n in ("segrecv", "mdrecv", "eofrecv") and p[0] != "None" and own:
                            if tid_vals(p[0]) != (id_val(q["src"]), id_val(q["seq"])):
                                f.add(f"C15:transaction-id:{n}", {"ind": x, "pdu": e.inp[:160]}, e.idx)
                    if k == "fd" and ind[2] == "1" and e.prev is not None and e.prev.state == "BUSY" \
                            and e.prev.step in FD_STEPS and e.prev.fsz != "-" and e.prev.rdy == 0 \
                            and "segrecv" not in kinds:
                        f.add("C15:enabled-segrecv-missing", {"pdu": e.inp[:160], "step": e.prev.step}, e.idx)
                    if k == "md" and (e.prev is None or e.prev.state == "IDLE") and "mdrecv" not in kinds:
                        f.add("C15:mdrecv-missing", {"pdu": e.inp[:160]}, e.idx)
                    if k == "eof" and ind[1] == "1" and e.prev is not None and e.prev.rdy == 0 and \
                            (e.prev.state == "IDLE" or e.prev.step in ("RECEIVING_FILE_DATA", "WAITING_FOR_METADATA",
                                                                       "RECV_FILE_DATA_WITH_CHECK_LIMIT_HANDLING")) \
                            and "eofrecv" not in kinds and not (e.prev.state == "IDLE" and q["mode"] == "U"):
                        f.add("C15:enabled-eofrecv-missing", {"pdu": e.inp[:160], "step": e.prev.step}, e.idx)
                # order: metadata-recv/eof-recv/seg-recv before finished within a transaction
                for x in e.inds:
                    n, p = ind_parts(x)
                    t = p[0]
                    ph = {"mdrecv": 1, "segrecv": 1, "eofrecv": 1, "finished": 3}.get(n, 0)
                    if phase.get(t, 0) == 3 and ph < 3 and e.prev is not None and e.prev.state == "BUSY":
                        f.add(f"C15:order:{n}-after-finished", {"ind": x}, e.idx)
                    if ph == 3:
                        phase[t] = 3
                if e.st.state == "IDLE":
                    phase.clear()
            else:
                for x in e.inds:
                    n, p = ind_parts(x)
                    t = p[0]
                    ph = {"tx": 1, "eofsent": 2, "finished": 3}.get(n, 0)
                    if n == "tx":
                        phase[t] = 1
                        # originating transaction id: surfaced unless a proxy put response is present
                        puts = [b for b in evs[:i + 1] if b.op == "put" and b.st.ok and b.exc is None]
                        if puts and len(p) > 1:
                            toks = kv(puts[-1].line.split()).get("msgs", "-")
                            toks = [] if toks == "-" else toks.split(";")
                            ids = []
                            for tk in toks:
                                if tk.startswith("o"):
                                    sv, sw, qv, qw = tk[1:].split(".")
                                    ids.append(f"{sv}/{sw}:{qv}/{qw}")
                            if "r" in toks or not ids:
                                if p[1] != "-":
                                    f.add("C15:originating-id-surfaced-unexpectedly", {"ind": x, "put": puts[-1].line}, e.idx)
                            elif p[1] not in ids:
                                f.add("C15:originating-id-missing-or-wrong", {"ind": x, "put": puts[-1].line}, e.idx)
                    elif phase.get(t, 0) < 1:
                        f.add(f"C15:order:{n}-before-transaction-indication", {"ind": x}, e.idx)
                    elif phase.get(t, 0) > ph:
                        f.add(f"C15:order:{n}-after-later-phase", {"ind": x}, e.idx)
                    else:
                        phase[t] = ph
                # every EOF PDU queued is announced (enabled) — count EOFs retrieved vs indications
        if tr.kinds[h] == "src":
            eofs = sum(1 for e in evs if e.op == "get" and e.pdu and pdu_kind(e.pdu) == "eof")
            sent = sum(1 for e in evs for x in e.inds if x.startswith("eofsent("))
            undrained = 0
            if ind[0] == "1" and sent < eofs:
                f.add("C15:enabled-eofsent-missing", {"eof_pdus": eofs, "indications": sent})
            if ind[0] == "1" and sent > eofs + sum(1 for e in evs if e.op == "reset") + (tr.final[h].rdy if tr.final[h] else 0) + 64 * 0 \
                    and not any(e.op in ("reset",) for e in evs) and not any(e.flts for e in evs) \
                    and not any(e.op == "put" and e.prev is not None and e.prev.ok and e.prev.rdy > 0 for e in evs):
                # (a put request accepted while PDUs are still queued zeroes the packets-ready counter:
                # the EOF PDU announced before it is then neither retrieved nor counted as pending)
                f.add("C15:eofsent-without-eof-pdu", {"eof_pdus": eofs, "indications": sent})
        # finished indication parameters == Finished PDU of the same completion (destination)
        if tr.kinds[h] == "dst":
            last_fin = None
            for e in evs:
                for x in e.inds:
                    if x.startswith("finished("):
                        last_fin = ind_parts(x)[1]
                if e.op == "get" and e.pdu is not None and pdu_kind(e.pdu) == "fin" and last_fin is not None \
                        and ind[3] == "1":
                    q = pdu_fields(e.pdu)
                    if [q["cond"], q["deliv"], q["fstat"]] != last_fin[1:4]:
                        f.add("C15:finished-indication-differs-from-finished-pdu", {"ind": last_fin, "pdu": e.pdu[:200]}, e.idx)
        else:
            for e in evs:
                if e.inp is not None and pdu_kind(e.inp) == "fin" and e.exc is None:
                    pass
    return f


def msgs_norm(s: str) -> str:
    s = s.strip("[]")
    return "-" if s in ("", "-") else s


# ============================================================================ C19
def o_C19(tr: Trace, h: str = "S") -> Fails:
    f = Fails()
    evs = tr.for_h(h)
    rc = tr.remote[h]
    hc = tr.hcfg[h]
    prov = None
    for l in tr.header:
        w = l.split()
        if w[0] == "P" and w[1] == hc.get("seqp"):
            prov = [int(w[2]), int(w[3])]
    tids = []
    pending = None          # parameters of the accepted put request awaiting its Metadata PDU
    last_tx_seq = None
    for i, e in enumerate(evs):
        if not e.st.ok:
            continue
        for x in e.inds:
            if x.startswith("tx(") and prov is not None:
                # every transaction start takes the provider's next value
                t = ind_parts(x)[1][0]
                got = id_val(t.split(":")[1])
                if got != prov[1]:
                    f.add("C19:sequence-number-not-next-provider-value", {"ind": x, "expected": prov[1]}, e.idx)
                last_tx_seq = got
                prov[1] = (got + 1) % (2 ** prov[0])
        if e.op == "put":
            args = dict(x.split("=", 1) for x in e.line.split()[2:])
            busy = e.prev is not None and e.prev.state == "BUSY"
            if busy:
                if e.st.ret != "false" or e.exc is not None:
                    f.add(f"C19:busy-handler-accepted-put:{e.st.ret}:{e.exc}", {"op": e.line}, e.idx)
                elif e.prev.line.split(" | ")[0] != e.st.line.split(" | ")[0].replace("ok ret=false ", e.prev.line.split(" st=")[0] + " ", 1) and \
                        (e.st.state, e.st.step, e.st.prog, e.st.rdy, e.st.tid, e.st.ack) != \
                        (e.prev.state, e.prev.step, e.prev.prog, e.prev.rdy, e.prev.tid, e.prev.ack):
                    f.add("C19:busy-put-disturbed-transaction", {"before": e.prev.line[:200], "after": e.st.line[:200]}, e.idx)
                continue
            src_exists = args["src"] == "-" or args["src"] in e.fs_before
            known = id_val(args["dest"]) == id_val(rc["id"])
            if not src_exists or not known:
                want = "SourceFileDoesNotExist" if not src_exists else "NoRemoteEntityCfgFound"
                if e.exc != want:
                    f.add(f"C19:invalid-put-not-refused:{want}:{e.exc}", {"op": e.line}, e.idx)
                elif e.st.ok and e.st.state != "IDLE":
                    f.add("C19:invalid-put-left-handler-busy", {"op": e.line}, e.idx)
                continue
            if e.exc is not None or e.st.ret != "true":
                f.add(f"C19:valid-put-refused:{e.exc}", {"op": e.line}, e.idx)
                continue
            pending = args
        elif e.op == "get" and e.pdu is not None and pending is not None and pdu_kind(e.pdu) == "md":
            q = pdu_fields(e.pdu)
            mode = pending["mode"] if pending["mode"] != "-" else rc["mode"]
            closure = pending["closure"] if pending["closure"] != "-" else rc["closure"]
            if q["mode"] != mode or q["closure"] != closure:
                f.add(f"C19:mode-closure-resolution:req={pending['mode']}{pending['closure']}:mib={rc['mode']}{rc['closure']}:"
                      f"got={q['mode']}{q['closure']}", {"pdu": e.pdu[:200]}, e.idx)
            if prov is not None and last_tx_seq is not None:
                if id_val(q["seq"]) != last_tx_seq or int(q["seq"].split("/")[1]) != prov[0] // 8:
                    f.add("C19:metadata-sequence-number-differs-from-transaction", {"pdu": e.pdu[:160]}, e.idx)
            t = (q["src"], q["seq"])
            if t in tids and (prov is None or len(tids) < 2 ** prov[0]):
                f.add("C19:transaction-id-reused", {"pdu": e.pdu[:160]}, e.idx)
            tids.append(t)
            pending = None
    return f


def o_seglen(tr: Trace, c: Cfg, h: str = "S") -> Fails:
    """C19/C07: the effective segment length is min(configured maximum, what max_packet_len allows):
    an undisturbed transfer of a file longer than that length has a first File Data PDU of exactly it"""
    f = Fails()
    first = next((e for e in tr.emitted(h) if pdu_kind(e.pdu) == "fd"), None)
    if first is None:
        return f
    # the source file as it is when the PDU is retrieved (the user may rewrite it between transactions)
    F = b"" if c.metadata_only else first.fs_before.get(c.src_path, b"") or b""
    q = pdu_fields(first.pdu)
    l = len(q["data"]) // 2 if q["data"] != "-" else 0
    if int(q["off"]) == 0 and l != min(c.seg_len, len(F)):
        f.add("C19:segment-length", {"pdu": first.pdu[:120], "expected": min(c.seg_len, len(F))}, first.idx)
    return f
