"""C07, implementation only: source files at and beyond the 32-bit boundary (sparse files in the native
sandbox).  The model states the rule for every file (`C07_metadata_call`: large := size > 2^32 - 1, the
same flag on every PDU, the true size in the Metadata PDU) but its executable driver cannot hold 2^32
bytes, so these sessions are evaluated by the oracle below and are not replayed on the model."""
from __future__ import annotations

from common import Rng
from framework import Ctx
from link import header_with_parent_dirs, rand_cfg
from session import Session, pdu_fields, pdu_kind

LIMIT = 2 ** 32 - 1


def scenario(rng: Rng):
    c = rand_cfg(rng, metadata_only=False)
    size = rng.choice((LIMIT, LIMIT + 1, LIMIT + 1 + rng.randrange(1, 5000), 2 ** 33 + rng.randrange(0, 3),
                       LIMIT - rng.randrange(1, 5000)))
    s = Session(header_with_parent_dirs(c), "native")
    s.do(f"sparse S {c.src_path} {size}")
    s.do(c.put_line())
    pdus, outs = [], []
    for _ in range(4):
        st = s.sm("S")
        outs.append(st.line)
        if not st.ok:
            break
        pdus += s.drain("S")
    s.do("reset S")
    return s, c, size, pdus, outs


def oracle(size: int, pdus: list[str], outs: list[str], sess: Session) -> list[tuple[str, dict]]:
    fails = []
    want = "1" if size > LIMIT else "0"
    if any(o.startswith("exc ") for o in outs):
        fails.append(("C07:large-file:call-raised", {"out": [o[:160] for o in outs]}))
    if any("wire=BAD" in o for o in sess.out):
        fails.append(("C07:large-file:pdu-not-encodable", {"out": [o[:200] for o in sess.out if "wire=BAD" in o][:2]}))
    kinds = [pdu_kind(p) for p in pdus]
    if not kinds or kinds[0] != "md" or any(k != "fd" for k in kinds[1:]):
        fails.append(("C07:large-file:stream-shape", {"kinds": kinds}))
        return fails
    md = pdu_fields(pdus[0])
    if md.get("size") != str(size):
        fails.append(("C07:large-file:metadata-size", {"size": size, "pdu": pdus[0][:200]}))
    off = 0
    for p in pdus:
        f = pdu_fields(p)
        if f.get("large") != want:
            fails.append(("C07:large-file:flag", {"size": size, "want_large": want, "pdu": p[:160]}))
            break
    for p in pdus[1:]:
        f = pdu_fields(p)
        n = 0 if f.get("data", "-") == "-" else len(f["data"]) // 2
        if int(f["off"]) != off or n == 0:
            fails.append(("C07:large-file:offsets", {"want_off": off, "pdu": p[:120]}))
            break
        off += n
    return fails


def explore(ctx: Ctx, scale: int = 1):
    n = 0
    for _ in range(16 * scale):
        s, c, size, pdus, outs = scenario(ctx.rng)
        try:
            ctx.evaluations += 1
            ctx.count("large-file:" + ("beyond" if size > LIMIT else "below"))
            n += 1
            for sig, detail in oracle(size, pdus, outs, s):
                ctx.fail(sig, {"suite": "large-file-impl-only", "impl_only": True, "fs_kind": "native",
                               "header": s.header, "ops": s.ops, "detail": detail,
                               "cfg": c.to_json(), "extra": {"size": size}})
        finally:
            s.close()
    ctx.notes.append(f"large-file scenarios (implementation only, sparse files): {n}")


def replay(ctx: Ctx, path: str, obj: dict) -> int:
    s = Session(obj["header"], "native")
    try:
        for op in obj["ops"]:
            s.do(op)
        pdus = []
        outs = []
        for op, out in zip(s.ops, s.out):
            if op.startswith("sm S"):
                outs.append(out)
            if op.startswith("get S") and "ret=[" in out:
                pdus.append(out[out.index("ret=[") + 5:out.rindex("]")])
        size = int(obj["extra"]["size"])
        sigs = [x[0] for x in oracle(size, pdus, outs, s)]
    finally:
        s.close()
    if obj.get("signature") in sigs:
        print(f"VIOLATION property={ctx.pid} replay={path}")
        print("reproduced:", obj.get("signature"))
        return 1
    print("not reproduced on the current tree")
    return 0
