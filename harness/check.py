"""Entry point: ./check Cxx [--tier quick|thorough] [--replay path]
exit 0 = held on everything explored; 1 = VIOLATION printed; 2 = infrastructure failure."""
from __future__ import annotations

import argparse
import importlib
import os
import subprocess
import sys
import traceback

sys.path.insert(0, os.path.dirname(os.path.abspath(__file__)))

import common  # noqa: E402
from framework import Ctx  # noqa: E402


def main() -> int:
    ap = argparse.ArgumentParser()
    ap.add_argument("pid")
    ap.add_argument("--tier", default=None)
    ap.add_argument("--replay", default=None)
    a = ap.parse_args()
    tier = a.tier or common.tier_from_env()
    seed = common.seed_from_env()
    os.environ["VERIF_TIER"] = tier      # the Lean stage reads the tier from the environment
    try:
        mod = importlib.import_module(f"prop_{a.pid}")
    except ModuleNotFoundError:
        print(f"no check for {a.pid}", file=sys.stderr)
        return 2
    ctx = Ctx(a.pid, tier, seed)
    try:
        if a.replay:
            return mod.replay(ctx, a.replay)
        return mod.run(ctx)
    except subprocess.TimeoutExpired:
        traceback.print_exc()
        return 2
    except Exception:  # noqa: BLE001  infrastructure failure, never a VIOLATION line
        traceback.print_exc()
        return 2


if __name__ == "__main__":
    sys.exit(main())
