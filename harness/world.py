"""Executes op scripts (DESIGN.md App. B) on the REAL cfdp-py handlers and prints one canonical
line per op.  The same lines are fed to the Lean model driver; outputs are diffed by the checks.

Virtual clock (spacepackets.countdown.time_ms rebound), injected filestore (in-memory or native in
a sandbox directory), recording user and fault handler.  Nothing in /repo is patched."""
from __future__ import annotations

import copy
import os
import shutil
import tempfile
from pathlib import Path

import common  # noqa: F401  (sets sys.path to /repo/src)

import spacepackets.countdown as _cd
from spacepackets.cfdp import (ChecksumType, ConditionCode, CrcFlag, Direction, EntityIdTlv,
                               FaultHandlerCode, LargeFileFlag, PduConfig, PduType, TransactionId,
                               TransmissionMode)
from spacepackets.cfdp.pdu import (AckPdu, DirectiveType, EofPdu, FileDataPdu, FinishedPdu,
                                   KeepAlivePdu, MetadataParams, MetadataPdu, NakPdu, PromptPdu,
                                   TransactionStatus)
from spacepackets.cfdp.pdu.file_data import FileDataParams
from spacepackets.cfdp.pdu.finished import DeliveryCode, FileStatus, FinishedParams
from spacepackets.cfdp.pdu.prompt import ResponseRequired
from spacepackets.cfdp.tlv import (FaultHandlerOverrideTlv, MessageToUserTlv, OriginatingTransactionId, ProxyMessageType,
                                   ProxyPutResponse, ProxyPutResponseParams)
from spacepackets.countdown import Countdown
from spacepackets.seqcount import ProvidesSeqCount
from spacepackets.util import ByteFieldGenerator, UnsignedByteField

from cfdppy import (CfdpUserBase, IndicationCfg, LocalEntityCfg, PutRequest, RemoteEntityCfg,
                    RemoteEntityCfgTable)
from cfdppy.filestore import FilestoreResult, NativeFilestore, VirtualFilestore
from cfdppy.handler.dest import DestHandler
from cfdppy.handler.source import SourceHandler
from cfdppy.mib import CheckTimerProvider, DefaultFaultHandlerBase

# --------------------------------------------------------------------------- virtual clock
NOW = [0]
_cd.time_ms = lambda: NOW[0]

COND_NAMES = {c.name: c for c in ConditionCode}
FH_NAMES = {"CANCEL": FaultHandlerCode.NOTICE_OF_CANCELLATION,
            "SUSPEND": FaultHandlerCode.NOTICE_OF_SUSPENSION,
            "IGNORE": FaultHandlerCode.IGNORE_ERROR,
            "ABANDON": FaultHandlerCode.ABANDON_TRANSACTION}
EXC = {"PermissionError": PermissionError, "FileNotFoundError": FileNotFoundError}


def bf(s: str) -> UnsignedByteField:
    v, w = s.split("/")
    return UnsignedByteField(int(v), int(w))


def bfs(f) -> str:
    return f"{f.value}/{f.byte_len}"


# --------------------------------------------------------------------------- filestores
class MemFilestore(VirtualFilestore):
    """Purely in-memory filestore; paths never exist on the host.  Mirrors the documented
    semantics of the interface (and NativeFilestore's for the operations the handlers use)."""

    DIR = object()

    def __init__(self):
        self.t: dict[str, object] = {"/": self.DIR}
        self.reject: list = []  # pending injected exceptions for write_data
        self.calls: list[str] = []

    @staticmethod
    def k(p) -> str:
        return Path(p).as_posix()

    def _parent_ok(self, key: str) -> bool:
        par = Path(key).parent.as_posix()
        return self.t.get(par) is self.DIR

    def read_data(self, file, offset, read_len=None):
        self.calls.append("read_data")
        d = self.t.get(self.k(file))
        if d is None:
            raise FileNotFoundError(file)
        if d is self.DIR:
            raise IsADirectoryError(file)
        offset = offset or 0
        if read_len is None:
            read_len = len(d)
        return bytes(d[offset:offset + read_len])

    def read_from_opened_file(self, bytes_io, offset, read_len):
        self.calls.append("read_from_opened_file")
        bytes_io.seek(offset)
        return bytes_io.read(read_len)

    def is_directory(self, path):
        self.calls.append("is_directory")
        return self.t.get(self.k(path)) is self.DIR

    def filename_from_full_path(self, path):
        return Path(path).name

    def file_exists(self, path):
        self.calls.append("file_exists")
        return self.k(path) in self.t

    def truncate_file(self, file):
        self.calls.append("truncate_file")
        key = self.k(file)
        if key not in self.t:
            raise FileNotFoundError(file)
        if self.t[key] is self.DIR:
            raise IsADirectoryError(file)
        self.t[key] = b""

    def file_size(self, file):
        self.calls.append("file_size")
        d = self.t.get(self.k(file))
        if d is None:
            raise FileNotFoundError(file)
        return 4096 if d is self.DIR else len(d)

    def write_data(self, file, data, offset):
        self.calls.append("write_data")
        if self.reject:
            raise self.reject.pop(0)(file)
        key = self.k(file)
        d = self.t.get(key)
        if d is None:
            raise FileNotFoundError(file)
        if d is self.DIR:
            raise IsADirectoryError(file)
        offset = offset or 0
        if len(data) == 0:
            return
        buf = bytearray(d)
        if offset > len(buf):
            buf.extend(b"\0" * (offset - len(buf)))
        buf[offset:offset + len(data)] = data
        self.t[key] = bytes(buf)

    def create_file(self, file):
        self.calls.append("create_file")
        key = self.k(file)
        if key in self.t or not self._parent_ok(key):
            return FilestoreResult.CREATE_NOT_ALLOWED
        self.t[key] = b""
        return FilestoreResult.CREATE_SUCCESS

    def delete_file(self, file):
        self.calls.append("delete_file")
        key = self.k(file)
        if key not in self.t:
            return FilestoreResult.DELETE_FILE_DOES_NOT_EXIST
        if self.t[key] is self.DIR:
            return FilestoreResult.DELETE_NOT_ALLOWED
        del self.t[key]
        return FilestoreResult.DELETE_SUCCESS

    def rename_file(self, old, new):
        return FilestoreResult.NOT_PERFORMED

    def replace_file(self, a, b):
        return FilestoreResult.NOT_PERFORMED

    def create_directory(self, d):
        key = self.k(d)
        if key in self.t or not self._parent_ok(key):
            return FilestoreResult.CREATE_DIR_CAN_NOT_BE_CREATED
        self.t[key] = self.DIR
        return FilestoreResult.CREATE_DIR_SUCCESS

    def remove_directory(self, d, recursive=False):
        return FilestoreResult.NOT_PERFORMED

    def list_directory(self, d, f, recursive=False):
        return FilestoreResult.NOT_PERFORMED

    def calculate_checksum(self, checksum_type, file_path, size_to_verify, segment_len=4096):
        self.calls.append("calculate_checksum")
        import struct

        from crcmod.predefined import PredefinedCrc
        from cfdppy.exceptions import ChecksumNotImplemented
        if checksum_type == ChecksumType.NULL_CHECKSUM:
            return bytes(4)
        d = self.t.get(self.k(file_path))
        if d is None or d is self.DIR:
            raise FileNotFoundError(file_path)
        data = bytes(d[:size_to_verify])
        if checksum_type == ChecksumType.MODULAR:
            s = 0
            for i in range(0, len(data), 4):
                s += int.from_bytes(data[i:i + 4].ljust(4, b"\0"), "big")
            return struct.pack("!I", s % 2**32)
        if segment_len == 0:
            raise ValueError("segment length can not be 0")
        if checksum_type == ChecksumType.CRC_32:
            c = PredefinedCrc("crc32")
        elif checksum_type == ChecksumType.CRC_32C:
            c = PredefinedCrc("crc32c")
        else:
            raise ChecksumNotImplemented(checksum_type)
        c.update(data)
        return c.digest()

    # harness-side helpers
    def put_file(self, path: str, data: bytes):
        self.t[path] = data

    def put_dir(self, path: str):
        self.t[path] = self.DIR

    def snapshot(self) -> str:
        items = []
        for k in sorted(self.t):
            if k == "/":
                continue
            v = self.t[k]
            items.append(f"{k}/" if v is self.DIR else f"{k}:{v.hex() or '-'}")
        return ",".join(items) or "-"


class SandboxNative(NativeFilestore):
    """NativeFilestore confined to a sandbox directory: the handlers see the script's paths (`/x/y`),
    every interface operation runs the library's own NativeFilestore code on `root/x/y`."""

    def __init__(self, root: Path):
        super().__init__()
        self.root = root
        self.reject: list = []
        self.calls: list[str] = []

    def host(self, path) -> Path:
        p = str(path)
        if p.startswith(str(self.root)):        # NativeFilestore calls its own (overridden) methods
            return Path(p)
        return self.root / p.lstrip("/")

    def read_data(self, file, offset, read_len=None):
        return super().read_data(self.host(file), offset, read_len)

    def file_size(self, file):
        return super().file_size(self.host(file))

    def file_exists(self, path):
        return super().file_exists(self.host(path))

    def is_directory(self, path):
        return super().is_directory(self.host(path))

    def truncate_file(self, file):
        return super().truncate_file(self.host(file))

    def write_data(self, file, data, offset):
        self.calls.append("write_data")
        if self.reject:
            raise self.reject.pop(0)(file)
        return super().write_data(self.host(file), data, offset)

    def create_file(self, file):
        return super().create_file(self.host(file))

    def delete_file(self, file):
        return super().delete_file(self.host(file))

    def rename_file(self, old_file, new_file):
        return super().rename_file(self.host(old_file), self.host(new_file))

    def replace_file(self, replaced_file, source_file):
        return super().replace_file(self.host(replaced_file), self.host(source_file))

    def remove_directory(self, dir_name, recursive=False):
        return super().remove_directory(self.host(dir_name), recursive)

    def create_directory(self, dir_name):
        return super().create_directory(self.host(dir_name))

    def calculate_checksum(self, checksum_type, file_path, size_to_verify, segment_len=4096):
        return super().calculate_checksum(checksum_type, self.host(file_path), size_to_verify, segment_len)

    def put_file(self, path: str, data: bytes):
        p = self.host(path)
        p.parent.mkdir(parents=True, exist_ok=True)
        p.write_bytes(data)

    def put_dir(self, path: str):
        self.host(path).mkdir(parents=True, exist_ok=True)

    def snapshot(self) -> str:
        items = []
        for dp, dns, fns in os.walk(self.root):
            rel = "/" + os.path.relpath(dp, self.root) if dp != str(self.root) else ""
            for d in dns:
                items.append(f"{rel}/{d}/")
            for f in fns:
                if Path(dp, f).stat().st_size > (1 << 24):     # a sparse file of the large-file scenarios
                    items.append(f"{rel}/{f}:#{Path(dp, f).stat().st_size}")
                    continue
                data = Path(dp, f).read_bytes()
                items.append(f"{rel}/{f}:{data.hex() or '-'}")
        return ",".join(sorted(items, key=lambda s: s.split(":")[0].rstrip("/"))) or "-"


# --------------------------------------------------------------------------- user / faults
class RecUser(CfdpUserBase):
    def __init__(self, vfs, world, name):
        super().__init__(vfs=vfs)
        self.w, self.name = world, name
        self.log: list[str] = []
        self.all: list[str] = []          # whole history (oracles)
        self.on_finished = None            # oracle hook: called inside the indication

    def _rec(self, s):
        self.log.append(s)
        self.all.append(s)

    def transaction_indication(self, p):
        o = p.originating_transaction_id
        self._rec(f"tx({tid_s(p.transaction_id)};{tid_s(o) if o is not None else '-'})")

    def eof_sent_indication(self, transaction_id):
        self._rec(f"eofsent({tid_s(transaction_id)})")

    def transaction_finished_indication(self, params):
        fp = params.finished_params
        self._rec(f"finished({tid_s(params.transaction_id)};{int(fp.condition_code)};"
                  f"{int(fp.delivery_code)};{int(fp.file_status)})")
        if self.on_finished is not None:
            self.on_finished(self.name, params)

    def metadata_recv_indication(self, params):
        msgs = "-"
        if params.msgs_to_user is not None:
            msgs = "[" + ";".join(msg_tok(m) for m in params.msgs_to_user) + "]"
        self._rec(f"mdrecv({tid_s(params.transaction_id)};{bfs(params.source_id)};"
                  f"{params.file_size if params.file_size is not None else '-'};"
                  f"{self.w.strip(params.source_file_name)};{self.w.strip(params.dest_file_name)};{msgs})")

    def file_segment_recv_indication(self, params):
        self._rec(f"segrecv({tid_s(params.transaction_id)};{params.offset};{params.length})")

    def report_indication(self, transaction_id, status_report):
        self._rec("report")

    def suspended_indication(self, transaction_id, cond_code):
        self._rec("suspended")

    def resumed_indication(self, transaction_id, progress):
        self._rec("resumed")

    def fault_indication(self, transaction_id, cond_code, progress):
        self._rec("fault")

    def abandoned_indication(self, transaction_id, cond_code, progress):
        self._rec("abandoned")

    def eof_recv_indication(self, transaction_id):
        self._rec(f"eofrecv({tid_s(transaction_id)})")


class RecFaults(DefaultFaultHandlerBase):
    def __init__(self):
        super().__init__()
        self.log: list[str] = []
        self.all: list[str] = []

    def _rec(self, kind, tid, cond, progress):
        s = f"{kind}({tid_s(tid) if tid is not None else 'None'};{int(cond)};{progress})"
        self.log.append(s)
        self.all.append(s)

    def notice_of_suspension_cb(self, transaction_id, cond, progress):
        self._rec("suspend", transaction_id, cond, progress)

    def notice_of_cancellation_cb(self, transaction_id, cond, progress):
        self._rec("cancel", transaction_id, cond, progress)

    def abandoned_cb(self, transaction_id, cond, progress):
        self._rec("abandon", transaction_id, cond, progress)

    def ignore_cb(self, transaction_id, cond, progress):
        self._rec("ignore", transaction_id, cond, progress)


class SeqProvider(ProvidesSeqCount):
    def __init__(self, bits: int, nxt: int):
        self.bits, self.nxt = bits, nxt

    @property
    def max_bit_width(self) -> int:
        return self.bits

    @max_bit_width.setter
    def max_bit_width(self, width: int) -> None:
        self.bits = width

    def get_and_increment(self) -> int:
        v = self.nxt
        self.nxt = (self.nxt + 1) % (2 ** self.bits) if self.bits in (8, 16, 32) else self.nxt + 1
        return v


class ChkProvider(CheckTimerProvider):
    """the user's check timer provider: one interval, or one per remote entity (`chkmap=value:ms,...` on the
    H line — implementation-only sessions: the model has one interval per local entity)"""

    def __init__(self, ms: int, per_remote: dict[int, int] | None = None):
        self.ms = ms
        self.per_remote = per_remote or {}

    def provide_check_timer(self, local_entity_id, remote_entity_id, entity_type) -> Countdown:
        return Countdown.from_millis(self.per_remote.get(remote_entity_id.value, self.ms))


def tid_s(t) -> str:
    if t is None:
        return "None"
    return f"{bfs(t.source_id)}:{bfs(t.seq_num)}"


# --------------------------------------------------------------------------- messages to user
def msg_build(tok: str) -> MessageToUserTlv:
    """tokens: o<sv>.<sw>.<qv>.<qw> originating id | r proxy put response | x<hex> plain"""
    if tok.startswith("o"):
        sv, sw, qv, qw = (int(x) for x in tok[1:].split("."))
        return OriginatingTransactionId(
            TransactionId(UnsignedByteField(sv, sw), UnsignedByteField(qv, qw))).to_generic_msg_to_user_tlv()
    if tok == "r":
        return ProxyPutResponse(ProxyPutResponseParams(
            ConditionCode.NO_ERROR, DeliveryCode.DATA_COMPLETE, FileStatus.FILE_RETAINED)
        ).to_generic_msg_to_user_tlv()
    if tok.startswith("x"):
        return MessageToUserTlv(bytes.fromhex(tok[1:]))
    raise ValueError(tok)


def msg_tok(m) -> str:
    try:
        if m.is_reserved_cfdp_message():
            r = m.to_reserved_msg_tlv()
            if r.is_originating_transaction_id():
                t = r.get_originating_transaction_id()
                return f"o{t.source_id.value}.{t.source_id.byte_len}.{t.seq_num.value}.{t.seq_num.byte_len}"
            if r.is_cfdp_proxy_operation() and \
                    r.get_cfdp_proxy_message_type() == ProxyMessageType.PUT_RESPONSE:
                return "r"
    except Exception:  # noqa: BLE001
        pass
    return "x" + bytes(m.value).hex()


# --------------------------------------------------------------------------- PDU text <-> object
def kv(tokens) -> dict[str, str]:
    d = {}
    for t in tokens:
        if "=" in t:
            k, v = t.split("=", 1)
            d[k] = v
    return d


class World:
    def __init__(self, header: list[str], fs_kind: str = "mem"):
        NOW[0] = 0
        self.fs_kind = fs_kind
        self.root: Path | None = None
        if fs_kind == "native":
            self.root = Path(tempfile.mkdtemp(prefix="cfdpverif-"))
        self.h: dict[str, object] = {}
        self.kind: dict[str, str] = {}
        self.fs: dict[str, object] = {}
        self.users: dict[str, RecUser] = {}
        self.faults: dict[str, RecFaults] = {}
        self.tables: dict[str, RemoteEntityCfgTable] = {}
        self.provs: dict[str, SeqProvider] = {}
        self.emitted: dict[str, list] = {}
        self.last_fs: dict[str, str] = {}
        for line in header:
            self._header(line.split())
        for n in self.h:
            self.last_fs[n] = self.fs[n].snapshot()

    # ---- paths: script paths are absolute posix strings; native maps them below the sandbox root
    def path(self, fsname: str, p: str) -> Path:
        return Path(p)          # handlers always see script paths; the sandbox maps them internally

    def strip(self, s):
        if s is None:
            return "-"
        s = str(s)
        if self.root is not None and s.startswith(str(self.root)):
            rest = s[len(str(self.root)):]          # /<fsname>/...
            parts = rest.split("/", 2)
            return "/" + (parts[2] if len(parts) > 2 else "")
        return s

    def close(self):
        if self.root is not None:
            shutil.rmtree(self.root, ignore_errors=True)

    def _mkfs(self, name):
        if name in self.fs:
            return self.fs[name]
        if self.fs_kind == "native":
            r = self.root / name
            r.mkdir(parents=True, exist_ok=True)
            self.fs[name] = SandboxNative(r)
        else:
            self.fs[name] = MemFilestore()
        return self.fs[name]

    def _header(self, t):
        if not t:
            return
        if t[0] == "P":      # P <name> <bits> <next>
            self.provs[t[1]] = SeqProvider(int(t[2]), int(t[3]))
        elif t[0] == "H":    # H <name> src|dst id=v/w ind=abcd chkms=N [seqp=name]
            name, kind = t[1], t[2]
            a = kv(t[3:])
            fs = self._mkfs(name)
            user = RecUser(fs, self, name)
            faults = RecFaults()
            ind = a.get("ind", "1111")
            icfg = IndicationCfg(
                eof_sent_indication_required=ind[0] == "1",
                eof_recv_indication_required=ind[1] == "1",
                file_segment_recvd_indication_required=ind[2] == "1",
                transaction_finished_indication_required=ind[3] == "1",
            )
            cfg = LocalEntityCfg(bf(a["id"]), icfg, faults)
            table = RemoteEntityCfgTable()
            chk = ChkProvider(int(a.get("chkms", "1000")),
                              {int(x.split(":")[0]): int(x.split(":")[1]) for x in a["chkmap"].split(",")}
                              if "chkmap" in a else None)
            if kind == "src":
                prov = self.provs[a["seqp"]]
                h = SourceHandler(cfg, user, table, chk, prov)
            else:
                h = DestHandler(cfg, user, table, chk)
            self.h[name], self.kind[name] = h, kind
            self.users[name], self.faults[name], self.tables[name] = user, faults, table
            self.emitted[name] = []
        elif t[0] == "R":    # remote cfg for handler t[1]
            a = kv(t[2:])
            ack_ms, ack_lim = a.get("ack", "1000/2").split("/")
            nak_ms, nak_lim = a.get("nak", "1000/2").split("/")
            cfg = RemoteEntityCfg(
                entity_id=bf(a["id"]),
                max_file_segment_len=None if a.get("maxseg", "-") == "-" else int(a["maxseg"]),
                max_packet_len=int(a.get("maxpkt", "64")),
                closure_requested=a.get("closure", "0") == "1",
                crc_on_transmission=a.get("crc", "0") == "1",
                default_transmission_mode=(TransmissionMode.ACKNOWLEDGED if a.get("mode", "U") == "A"
                                           else TransmissionMode.UNACKNOWLEDGED),
                crc_type=ChecksumType(int(a.get("cks", "3"))),
                positive_ack_timer_interval_seconds=int(ack_ms) / 1000.0,
                positive_ack_timer_expiration_limit=int(ack_lim),
                check_limit=int(a.get("chklim", "2")),
                disposition_on_cancellation=a.get("disp", "0") == "1",
                immediate_nak_mode=a.get("imm", "1") == "1",
                nak_timer_interval_seconds=int(nak_ms) / 1000.0,
                nak_timer_expiration_limit=int(nak_lim),
            )
            self.tables[t[1]].add_config(cfg)
        elif t[0] == "F":    # F <H> COND=CODE ...
            for k, v in kv(t[2:]).items():
                self.faults[t[1]].set_handler(COND_NAMES[k], FH_NAMES[v])
        elif t[0] == "file":  # file <H> <path> <hex|->
            data = b"" if t[3] == "-" else bytes.fromhex(t[3])
            fs = self._mkfs(t[1])
            if self.fs_kind == "native":
                fs.put_file(t[2], data)
            else:
                fs.put_file(t[2], data)
        elif t[0] == "dir":
            self._mkfs(t[1]).put_dir(t[2])
        elif t[0] == "clock":
            NOW[0] = int(t[1])
        else:
            raise ValueError(f"bad header line {t}")

    # ---- PDUs
    def canon_pdu(self, pdu) -> str:
        hd = pdu.pdu_header
        c = hd.pdu_conf
        h = (f"dir={'R' if hd.direction == Direction.TOWARDS_RECEIVER else 'S'} "
             f"mode={'A' if hd.transmission_mode == TransmissionMode.ACKNOWLEDGED else 'U'} "
             f"crc={int(hd.crc_flag)} large={int(hd.file_flag)} src={bfs(hd.source_entity_id)} "
             f"dst={bfs(hd.dest_entity_id)} seq={bfs(hd.transaction_seq_num)}")
        ln = pdu.packet_len
        if hd.pdu_type == PduType.FILE_DATA:
            return f"fd {h} off={pdu.offset} data={bytes(pdu.file_data).hex() or '-'} len={ln}"
        dt = pdu.directive_type
        if dt == DirectiveType.METADATA_PDU:
            opts = pdu.options_as_tlv()
            msgs = "-"
            if opts:
                msgs = ";".join(msg_tok(MessageToUserTlv.from_tlv(o)) for o in opts)
            return (f"md {h} closure={int(pdu.closure_requested)} cks={int(pdu.checksum_type)} "
                    f"size={pdu.file_size} sname={self.strip(pdu.source_file_name)} "
                    f"dname={self.strip(pdu.dest_file_name)} msgs={msgs} len={ln}")
        if dt == DirectiveType.EOF_PDU:
            fl = "-" if pdu.fault_location is None else self._floc(pdu.fault_location)
            return (f"eof {h} cond={int(pdu.condition_code)} cks={bytes(pdu.file_checksum).hex()} "
                    f"size={pdu.file_size} floc={fl} len={ln}")
        if dt == DirectiveType.FINISHED_PDU:
            fp = pdu.finished_params
            fl = "-" if fp.fault_location is None else self._floc(fp.fault_location)
            return (f"fin {h} cond={int(fp.condition_code)} deliv={int(fp.delivery_code)} "
                    f"fstat={int(fp.file_status)} floc={fl} len={ln}")
        if dt == DirectiveType.ACK_PDU:
            return (f"ack {h} of={int(pdu.directive_code_of_acked_pdu)} "
                    f"cond={int(pdu.condition_code_of_acked_pdu)} tstat={int(pdu.transaction_status)} len={ln}")
        if dt == DirectiveType.NAK_PDU:
            reqs = ",".join(f"{a}-{b}" for a, b in pdu.segment_requests) or "-"
            return f"nak {h} sos={pdu.start_of_scope} eos={pdu.end_of_scope} reqs={reqs} len={ln}"
        if dt == DirectiveType.KEEP_ALIVE_PDU:
            return f"ka {h} prog={pdu.progress} len={ln}"
        if dt == DirectiveType.PROMPT_PDU:
            return f"pr {h} resp={int(pdu.response_required)} len={ln}"
        return f"unknown-pdu {h}"

    def wire_check(self, pdu) -> str:
        """C07 'serialises to a parsable PDU': pack() has the announced length and unpack(pack())
        has the same canonical fields (spacepackets 0.26.1 EofPdu.unpack keeps the condition code
        unshifted: normalised).  Returns '' when fine; a marker (which the model never prints) else."""
        try:
            raw = pdu.pack()
            if len(raw) != pdu.packet_len:
                return f" wire=BAD:len{len(raw)}"
            back = type(pdu).unpack(raw)
            a, b = self.canon_pdu(pdu), self.canon_pdu(back)
            if a != b:
                if a.startswith("eof "):
                    fa, fb = kv(a.split()[1:]), kv(b.split()[1:])
                    if int(fb["cond"]) == int(fa["cond"]) << 4 or int(fb["cond"]) == int(fa["cond"]):
                        fb["cond"] = fa["cond"]
                    if fa == fb:
                        return ""
                return " wire=BAD:roundtrip"
            return ""
        except Exception as e:  # noqa: BLE001
            return f" wire=BAD:{type(e).__name__}"

    @staticmethod
    def _floc(tlv) -> str:
        v = bytes(tlv.value)
        return f"{int.from_bytes(v, 'big')}/{len(v)}"

    def build_pdu(self, hname: str, t: list[str]):
        kind = t[0]
        a = kv(t[1:])
        conf = PduConfig(
            source_entity_id=bf(a["src"]), dest_entity_id=bf(a["dst"]),
            transaction_seq_num=bf(a["seq"]),
            trans_mode=TransmissionMode.ACKNOWLEDGED if a["mode"] == "A" else TransmissionMode.UNACKNOWLEDGED,
            file_flag=LargeFileFlag(int(a.get("large", "0"))),
            crc_flag=CrcFlag(int(a.get("crc", "0"))),
        )
        if kind == "md":
            sname = None if a["sname"] == "-" else a["sname"]
            dname = None if a["dname"] == "-" else a["dname"]
            # destination names live in the receiving handler's filestore
            opts = None
            if a.get("msgs", "-") != "-":
                opts = [msg_build(x) for x in a["msgs"].split(";")]
            p = MetadataPdu(conf, MetadataParams(a["closure"] == "1", ChecksumType(int(a["cks"])),
                                                 int(a["size"]), sname, dname), opts)
        elif kind == "fd":
            data = b"" if a["data"] == "-" else bytes.fromhex(a["data"])
            p = FileDataPdu(conf, FileDataParams(data, int(a["off"]), None))
        elif kind == "eof":
            fl = None
            if a.get("floc", "-") != "-":
                fl = EntityIdTlv(bf(a["floc"]).as_bytes)
            p = EofPdu(conf, bytes.fromhex(a["cks"]), int(a["size"]), fl, ConditionCode(int(a["cond"])))
        elif kind == "fin":
            fl = None
            if a.get("floc", "-") != "-":
                fl = EntityIdTlv(bf(a["floc"]).as_bytes)
            p = FinishedPdu(conf, FinishedParams(condition_code=ConditionCode(int(a["cond"])),
                                                 delivery_code=DeliveryCode(int(a["deliv"])),
                                                 file_status=FileStatus(int(a["fstat"])),
                                                 fault_location=fl))
        elif kind == "ack":
            p = AckPdu(conf, DirectiveType(int(a["of"])), ConditionCode(int(a["cond"])),
                       TransactionStatus(int(a["tstat"])))
        elif kind == "nak":
            reqs = []
            if a.get("reqs", "-") != "-":
                for r in a["reqs"].split(","):
                    x, y = r.split("-")
                    reqs.append((int(x), int(y)))
            p = NakPdu(conf, int(a["sos"]), int(a["eos"]), reqs)
        elif kind == "ka":
            p = KeepAlivePdu(conf, int(a["prog"]))
        elif kind == "pr":
            p = PromptPdu(conf, ResponseRequired(int(a["resp"])))
        else:
            raise ValueError(kind)
        # the direction flag is an independent dimension: set after construction
        p.pdu_header.pdu_conf.direction = (Direction.TOWARDS_RECEIVER if a.get("dir", "R") == "R"
                                           else Direction.TOWARDS_SENDER)
        return p

    # ---- status line
    def status(self, name: str) -> str:
        h = self.h[name]
        if self.kind[name] == "src":
            ctr = f"0/0/{h.positive_ack_counter}"
            deff = 0
        else:
            ctr = f"{h.current_check_counter}/{h.nak_activity_counter}/{h.positive_ack_counter}"
            deff = int(h.deferred_lost_segment_procedure_active)
        tid = h.transaction_id
        u, f = self.users[name], self.faults[name]
        ind = ",".join(u.log) or "-"
        flt = ",".join(f.log) or "-"
        u.log, f.log = [], []
        snap = self.fs[name].snapshot()
        fs = "same" if snap == self.last_fs[name] else snap
        self.last_fs[name] = snap
        fsz = h.file_size
        return (f"st={h.state.name}/{h.step.name} rdy={h.num_packets_ready} prog={h.progress} "
                f"fsz={fsz if fsz is not None else '-'} tid={tid_s(tid) if tid is not None else '-'} "
                f"ctr={ctr} def={deff} | ind={ind} | flt={flt} | fs={fs}")

    # ---- ops
    def exec(self, line: str) -> str:
        t = line.split()
        if not t:
            return ""
        op = t[0]
        if op == "tick":
            NOW[0] += int(t[1])
            return f"ok now={NOW[0]}"
        if op == "file":   # the user (re)writes a file between transactions: same line as in the header
            self._header(t)
            return "ok"
        if op == "rm":      # rm <handler> <path>: the user deletes a file behind the handler's back
            fs = self.fs.get(t[1])
            if fs is None:
                return "bad-op"
            fs.delete_file(Path(t[2]))
            return "ok"
        if op == "sparse":  # sparse <handler> <path> <size>: a file of <size> zero bytes that occupies no
            # space (native sandbox only; implementation-only scenarios: the model cannot hold 2^32 bytes)
            fs = self.fs.get(t[1])
            if not isinstance(fs, SandboxNative):
                return "bad-op"
            hp = fs.host(t[2])
            hp.parent.mkdir(parents=True, exist_ok=True)
            with open(hp, "wb") as fh:
                fh.truncate(int(t[3]))
            return "ok"
        name = t[1]
        h = self.h.get(name)
        if h is None:
            return "bad-op"
        try:
            if op == "put":
                a = kv(t[2:])
                msgs = None
                if a.get("msgs", "-") != "-":
                    msgs = [msg_build(x) for x in a["msgs"].split(";")]
                req = PutRequest(
                    destination_id=bf(a["dest"]),
                    source_file=None if a["src"] == "-" else self.path(name, a["src"]),
                    dest_file=None if a["dst"] == "-" else Path(a["dst"]),
                    trans_mode={"A": TransmissionMode.ACKNOWLEDGED, "U": TransmissionMode.UNACKNOWLEDGED,
                                "-": None}[a.get("mode", "-")],
                    closure_requested={"1": True, "0": False, "-": None}[a.get("closure", "-")],
                    msgs_to_user=msgs,
                    # fault handler override options (fho=COND:FH,...): carried in the Metadata PDU for the
                    # RECEIVER; the local fault handler table alone decides what the sender does (C14).
                    # Implementation-only sessions: the model's Metadata PDU has no such options.
                    fault_handler_overrides=None if a.get("fho", "-") == "-" else [
                        FaultHandlerOverrideTlv(COND_NAMES[x.split(":")[0]], FH_NAMES[x.split(":")[1]])
                        for x in a["fho"].split(",")],
                )
                r = h.put_request(req)
                return f"ok ret={'true' if r else 'false'} " + self.status(name)
            if op == "sm":
                if t[2] == "-":
                    h.state_machine(None)
                else:
                    try:
                        pdu = self.build_pdu(name, t[3:])
                    except Exception as e:  # noqa: BLE001  the harness's own constructor call failed
                        return f"bad-pdu {type(e).__name__}"
                    h.state_machine(pdu)
                return "ok ret=- " + self.status(name)
            if op == "get":
                p = h.get_next_packet()
                if p is None:
                    return "ok ret=None " + self.status(name)
                pdu = p.pdu
                self.emitted[name].append(pdu)
                return f"ok ret=[{self.canon_pdu(pdu)}{self.wire_check(pdu)}] " + self.status(name)
            if op == "cancel":
                r = h.cancel_request(TransactionId(bf(t[2]), bf(t[3])))
                return f"ok ret={'true' if r else 'false'} " + self.status(name)
            if op == "reset":
                h.reset()
                return "ok ret=- " + self.status(name)
            if op == "sethandler":
                self.faults[name].set_handler(COND_NAMES[t[2]], FH_NAMES[t[3]])
                return "ok ret=- " + self.status(name)
            if op == "reject":
                self.fs[name].reject.extend([EXC[t[3]]] * int(t[2]))
                return "ok ret=- " + self.status(name)
            return "bad-op"
        except Exception as e:  # noqa: BLE001
            return f"exc {type(e).__name__} " + self.status(name)

    def last_exception_frame(self):
        return None


def run_script(header: list[str], ops: list[str], fs_kind: str = "mem") -> list[str]:
    """returns one line per header line ('ok') and one per op — same shape as the model driver"""
    w = World(header, fs_kind)
    try:
        out = ["ok"] * len(header)
        out.append("ok go")
        for line in ops:
            out.append(w.exec(line))
        return out
    finally:
        w.close()
