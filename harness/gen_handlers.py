"""Type-directed generators of single-handler sessions (DESIGN.md §4.1): a destination handler fed
by a scripted sender, a source handler fed by a scripted receiver, and a malformed stream (any PDU
type, arbitrary field values) against both.  Every session is recorded (`session.Session`) so the
identical script replays on the Lean model."""
from __future__ import annotations

import zlib

from common import Rng
from link import Cfg, Link, Pacing, header_with_parent_dirs, rand_bytes, rand_cfg, rand_plan
from session import Session, Status, pdu_fields, pdu_kind

CONDS = {"NO_ERROR": 0, "POSITIVE_ACK_LIMIT_REACHED": 1, "FILESTORE_REJECTION": 4,
         "FILE_CHECKSUM_FAILURE": 5, "FILE_SIZE_ERROR": 6, "NAK_LIMIT_REACHED": 7,
         "CHECK_LIMIT_REACHED": 10, "CANCEL_REQUEST_RECEIVED": 15}
DECLARABLE = ["POSITIVE_ACK_LIMIT_REACHED", "FILESTORE_REJECTION", "FILE_CHECKSUM_FAILURE",
              "FILE_SIZE_ERROR", "NAK_LIMIT_REACHED", "CHECK_LIMIT_REACHED", "CANCEL_REQUEST_RECEIVED"]
FH = ["CANCEL", "IGNORE", "ABANDON", "SUSPEND"]
# conditions the handlers never declare: four are in the fault handler table all the same, two are not
# (`set_handler` refuses those with ValueError)
OTHER_CONDS = ["KEEP_ALIVE_LIMIT_REACHED", "INVALID_TRANSMISSION_MODE", "INACTIVITY_DETECTED",
               "UNSUPPORTED_CHECKSUM_TYPE", "NO_ERROR", "SUSPEND_REQUEST_RECEIVED"]


# ------------------------------------------------------------------ reference checksums (harness side)
def ref_checksum(cks: int, data: bytes) -> bytes:
    if cks == 15:
        return bytes(4)
    if cks == 3:
        return zlib.crc32(data).to_bytes(4, "big")
    if cks == 2:
        return crc32c(data).to_bytes(4, "big")
    if cks == 0:
        s = 0
        for i in range(0, len(data), 4):
            s += int.from_bytes(data[i:i + 4].ljust(4, b"\0"), "big")
        return (s % 2 ** 32).to_bytes(4, "big")
    raise ValueError(cks)


_C32C = None


def crc32c(data: bytes) -> int:
    global _C32C
    if _C32C is None:
        t = []
        for i in range(256):
            c = i
            for _ in range(8):
                c = (c >> 1) ^ 0x82F63B78 if c & 1 else c >> 1
            t.append(c)
        _C32C = t
    c = 0xFFFFFFFF
    for b in data:
        c = _C32C[(c ^ b) & 0xFF] ^ (c >> 8)
    return c ^ 0xFFFFFFFF


# ------------------------------------------------------------------ PDU text
def hdr(c: Cfg, seq: int, mode: str | None = None, direction: str = "R", large: int = 0,
        src: str | None = None, dst: str | None = None, seqw: int | None = None) -> str:
    w = c.idw
    sv, dv = c.sid.split("/")[0], c.did.split("/")[0]
    return (f"dir={direction} mode={mode or c.eff_mode} crc={c.crc} large={large} "
            f"src={src or f'{sv}/{w}'} dst={dst or f'{dv}/{w}'} seq={seq}/{seqw or c.seqbits // 8}")


def md(c: Cfg, h: str, size: int | None = None, closure: int | None = None, cks: int | None = None,
       sname: str | None = None, dname: str | None = None, msgs: str = "-") -> str:
    return (f"md {h} closure={int(c.eff_closure) if closure is None else closure} "
            f"cks={c.cks if cks is None else cks} size={len(c.data) if size is None else size} "
            f"sname={sname or c.src_path} dname={dname or c.dst_path} msgs={msgs}")


def fd(h: str, off: int, data: bytes) -> str:
    return f"fd {h} off={off} data={data.hex() or '-'}"


def eof(h: str, cond: int, cks: bytes, size: int, floc: str = "-") -> str:
    return f"eof {h} cond={cond} cks={cks.hex()} size={size} floc={floc}"


def ack(h: str, of: int, cond: int = 0, tstat: int = 1) -> str:
    return f"ack {h} of={of} cond={cond} tstat={tstat}"


def nak(h: str, sos: int, eos: int, reqs) -> str:
    r = ",".join(f"{a}-{b}" for a, b in reqs) or "-"
    return f"nak {h} sos={sos} eos={eos} reqs={r}"


def fin(h: str, cond: int = 0, deliv: int = 0, fstat: int = 2, floc: str = "-") -> str:
    return f"fin {h} cond={cond} deliv={deliv} fstat={fstat} floc={floc}"


def grid(n: int, seg: int) -> list[tuple[int, int]]:
    out, o = [], 0
    while o < n:
        l = min(seg, n - o)
        out.append((o, l))
        o += l
    return out


def tick_choice(rng: Rng, ms: int) -> int:
    return rng.choice((1, max(1, ms - 1), ms, ms + 1, ms, 2 * ms))


SRC_CONDS = ["POSITIVE_ACK_LIMIT_REACHED", "CHECK_LIMIT_REACHED", "CANCEL_REQUEST_RECEIVED"]


def rand_fault_table(rng: Rng, side_conds=DECLARABLE, p: float = 0.5) -> str:
    if not rng.chance(p):
        return ""
    items = []
    for cnd in side_conds:
        if rng.chance(0.4):
            items.append(f"{cnd}={rng.choice(FH)}")
    return " ".join(items)


# ------------------------------------------------------------------ destination sessions
class DestFeeder:
    """scripted sender for a destination handler: produces a PDU schedule for one transaction"""

    def __init__(self, rng: Rng, c: Cfg, seq: int, grid_only: bool = False, honest: bool = False,
                 bad_dest: float = 0.0):
        self.rng, self.c, self.seq = rng, c, seq
        self.h = hdr(c, seq)
        self.grid_only = grid_only
        self.honest = honest        # the sender's EOF always carries the true size and checksum
        # the Metadata PDU names a destination whose directory does not exist (filestore rejection)
        self.dname = "/nodir/f.bin" if bad_dest and rng.chance(bad_dest) else None

    def schedule(self) -> list[tuple]:
        """list of actions: ("pdu", text) | ("tick", ms) | ("idle",) | ("cancel", ok) | ("reject", n, exc)"""
        rng, c = self.rng, self.c
        n = len(c.data)
        seg = max(1, c.seg_len)
        tiles = grid(n, seg)
        fds = [("pdu", fd(self.h, o, c.data[o:o + l])) for o, l in tiles]
        cks = ref_checksum(c.cks, c.data)
        e = ("pdu", eof(self.h, 0, cks, n))
        m = ("pdu", md(c, self.h, msgs=c.msgs, dname=self.dname))
        acts: list[tuple] = []
        # loss / duplication / permutation of the tiles
        body = list(fds)
        mode = rng.randrange(8)
        if mode == 1 and body:
            rng.shuffle(body)
        elif mode == 2 and body:
            body = [x for x in body if rng.chance(0.7)]
        elif mode == 3 and body:
            body = body + [rng.choice(body) for _ in range(rng.randrange(1, 3))]
            rng.shuffle(body)
        elif mode == 4 and len(body) > 1:
            i = rng.randrange(len(body))
            x = body.pop(i)
            body.append(x)                          # one tile late (after the others)
        elif mode == 5 and body:
            body = [x for x in body if rng.chance(0.5)]
            rng.shuffle(body)
        # position of Metadata and EOF
        md_pos = 0
        if c.eff_mode == "A" and rng.chance(0.3):
            md_pos = rng.randrange(0, len(body) + 2)
        elif rng.chance(0.05):
            md_pos = rng.randrange(0, len(body) + 2)
        eof_pos = len(body) + 1
        if rng.chance(0.35):
            eof_pos = rng.randrange(0, len(body) + 2)
        seqn = list(body)
        seqn.insert(min(md_pos, len(seqn)), m)
        seqn.insert(min(eof_pos, len(seqn)), e)
        missing = [x for x in fds if x not in body]
        late = list(missing)
        rng.shuffle(late)
        # arbitrary (non-grid) extras
        if not self.grid_only and rng.chance(0.3):
            for _ in range(rng.randrange(1, 4)):
                o = rng.randrange(0, n + 6)
                l = rng.randrange(0, 7)
                d = c.data[o:o + l] if rng.chance(0.6) else rand_bytes(rng, l)
                d = d.ljust(l, b"\x55") if rng.chance(0.5) else d
                seqn.insert(rng.randrange(len(seqn) + 1), ("pdu", fd(self.h, o, d)))
        if not self.grid_only and rng.chance(0.12):
            cond = rng.choice((15, 1, 7, 10, 4))
            k = rng.randrange(0, n + 1)
            ce = ("pdu", eof(self.h, cond, ref_checksum(c.cks, c.data[:k]), k,
                             floc=rng.choice(("-", c.sid))))
            seqn.insert(rng.randrange(len(seqn) + 1), ce)
        if not self.grid_only and not self.honest and rng.chance(0.12):
            # an empty File Data PDU beyond the data (progress ahead of what the file holds), and the EOF
            # announces that size: the checksum is then verified over more bytes than the file has
            ob = n + rng.randrange(1, 9)
            k = seqn.index(e)
            seqn[k] = e = ("pdu", eof(self.h, 0, cks, ob))
            seqn.insert(rng.randrange(0, k + 1), ("pdu", fd(self.h, ob, b"")))
        if not self.grid_only and not self.honest and rng.chance(0.08):
            bad = bytes([cks[0] ^ 1]) + cks[1:]
            seqn.insert(rng.randrange(len(seqn) + 1), ("pdu", eof(self.h, 0, bad, n + rng.randrange(-1, 2) if n else 0)))
        for x in seqn:
            acts.append(x)
            r = rng.random()
            if x is m and not self.grid_only and rng.chance(0.06):
                # the very first write is refused (file status not yet "retained")
                acts.append(("reject", 1, rng.choice(("PermissionError", "FileNotFoundError"))))
            if r < 0.10:
                acts.append(("idle",))
            elif r < 0.16:
                acts.append(("tick", tick_choice(rng, rng.choice((int(c.nak.split('/')[0]), c.chkms,
                                                                  int(c.ack.split('/')[0]))))))
            elif r < 0.19 and not self.grid_only:
                acts.append(("cancel", rng.chance(0.7)))
            elif r < 0.22 and not self.grid_only:
                acts.append(("reject", rng.randrange(1, 3), rng.choice(("PermissionError", "FileNotFoundError"))))
        # tail: timers, late data, acks
        for _ in range(rng.randrange(2, 10)):
            r = rng.random()
            if r < 0.35:
                acts.append(("tick", tick_choice(rng, rng.choice((int(c.nak.split('/')[0]), c.chkms,
                                                                  int(c.ack.split('/')[0]))))))
                acts.append(("idle",))
            elif r < 0.6 and late:
                acts.append(late.pop())
            elif r < 0.7:
                acts.append(m)
            elif r < 0.8:
                acts.append(("pdu", ack(hdr(c, self.seq), 5, 0, 1)))
            elif r < 0.85:
                acts.append(e)
            else:
                acts.append(("idle",))
        return acts


def serve_naks_from(c: Cfg, h: str, nak_pdu: str) -> list[str]:
    """what a correct sender would answer to a NAK (used by the scripted sender)"""
    out = []
    f = pdu_fields(nak_pdu)
    if f.get("reqs", "-") == "-":
        return out
    seg = max(1, c.seg_len)
    for r in f["reqs"].split(","):
        a, b = (int(x) for x in r.split("-"))
        if a == 0 and b == 0:
            out.append(md(c, h, msgs=c.msgs))
            continue
        o = a
        while o < b:
            l = min(seg, b - o)
            out.append(fd(h, o, c.data[o:o + l]))
            o += l
    return out


def dest_session(rng: Rng, grid_only: bool = False, fs_kind: str = "mem", n_tx: int | None = None,
                 cfg: Cfg | None = None, serve: float = 0.5, honest: bool = False,
                 reconf: float = 0.0, bad_dest: float = 0.0) -> Session:
    c = cfg or rand_cfg(rng)
    if cfg is None:
        c.faults_d = "" if grid_only else rand_fault_table(rng, p=0.35)
    s = Session(header_with_parent_dirs(c), fs_kind)
    seq = c.seqnext
    n_tx = n_tx or rng.choice((1, 1, 1, 2, 3))
    for t in range(n_tx):
        if reconf and t > 0 and rng.chance(reconf):
            for _ in range(rng.randrange(1, 3)):
                s.do(f"sethandler D {rng.choice(DECLARABLE if rng.chance(0.8) else OTHER_CONDS)} {rng.choice(FH)}")
        feeder = DestFeeder(rng, c, seq, grid_only, honest, bad_dest)
        pending: list[str] = []
        do_serve = rng.chance(serve)
        for a in feeder.schedule():
            if a[0] == "pdu":
                s.sm("D", a[1])
            elif a[0] == "idle":
                s.sm("D")
            elif a[0] == "tick":
                s.tick(a[1])
                continue
            elif a[0] == "cancel":
                w = c.idw
                sv = c.sid.split("/")[0]
                tid = f"{sv}/{w} {seq if a[1] else (seq + 1) % 2 ** c.seqbits}/{c.seqbits // 8}"
                s.do(f"cancel D {tid}")
            elif a[0] == "reject":
                s.do(f"reject D {a[1]} {a[2]}")
                continue
            if rng.chance(0.93):
                for p in s.drain("D"):
                    if pdu_kind(p) == "nak" and do_serve:
                        pending.extend(serve_naks_from(c, feeder.h, p))
            while pending and rng.chance(0.8):
                s.sm("D", pending.pop(0))
                for p in s.drain("D"):
                    if pdu_kind(p) == "nak" and do_serve and len(pending) < 40:
                        pending.extend(serve_naks_from(c, feeder.h, p))
        s.drain("D")
        seq = (seq + 1) % 2 ** c.seqbits
        if rng.chance(0.3):
            # new content / size for the next transaction on the same handler
            c = Cfg(**{**c.__dict__, "data": rand_bytes(rng, rng.randrange(0, 20))})
    return s


# ------------------------------------------------------------------ source sessions
def source_session(rng: Rng, fs_kind: str = "mem", cfg: Cfg | None = None, well_behaved: bool = False,
                   n_tx: int | None = None, always_drain: bool = False, quiet: bool = False,
                   reconf: float = 0.0, vary_file: float = 0.0, fho: float = 0.0) -> Session:
    c = cfg or rand_cfg(rng)
    if cfg is None and not well_behaved:
        c.faults_s = rand_fault_table(rng, ["POSITIVE_ACK_LIMIT_REACHED", "CHECK_LIMIT_REACHED",
                                            "CANCEL_REQUEST_RECEIVED"], p=0.3)
    s = Session(header_with_parent_dirs(c), fs_kind)
    n = len(c.data)
    n_tx = n_tx or rng.choice((1, 1, 2, 3))
    ackms = int(c.ack.split("/")[0])
    for t in range(n_tx):
        if reconf and t > 0 and rng.chance(reconf):
            # the user reconfigures the fault handler table between two transactions
            for _ in range(rng.randrange(1, 3)):
                s.do(f"sethandler S {rng.choice(SRC_CONDS if rng.chance(0.8) else OTHER_CONDS)} {rng.choice(FH)}")
        if vary_file and t > 0 and not c.metadata_only and rng.chance(vary_file):
            # the user rewrites the source file between two transactions: other content of the same length
            # (mostly), or of another length
            m = n if rng.chance(0.7) else rng.randrange(0, 2 * n + 2)
            s.do(f"file S {c.src_path} {bytes(rng.randrange(256) for _ in range(m)).hex() or '-'}")
        r = rng.random()
        if not well_behaved and r < 0.08:
            s.do(f"put S dest={c.did} src=/missing.bin dst=/x mode=- closure=- msgs=-")
        if not well_behaved and 0.08 <= r < 0.14:
            s.do(f"put S dest=99/{c.did.split('/')[1]} src={c.src_path} dst=/x mode=- closure=- msgs=-")
        put = c.put_line()
        if fho and rng.chance(fho):
            # the request carries fault handler override options naming other handler codes than the table
            put += " fho=" + ",".join(f"{cc}:{rng.choice(FH)}" for cc in rng.sample(SRC_CONDS, rng.randrange(1, 4)))
        st = s.do(put)
        if st.ret != "true":
            continue
        if not well_behaved and not c.metadata_only and rng.chance(0.04):
            # the source file disappears between the accepted request and the transaction start
            s.do(f"rm S {c.src_path}")
            s.sm("S")
            s.drain("S")
            if rng.chance(0.5):
                s.do(f"file S {c.src_path} {c.data.hex() or '-'}")
            else:
                s.do("reset S")
                s.do(f"file S {c.src_path} {c.data.hex() or '-'}")
                continue
        sent_eof = False
        seq_s = None
        steps = rng.randrange(3, 16) + 2 * (n // max(1, c.seg_len))
        for i in range(steps):
            # mostly one state machine call per round; sometimes two user/peer events follow each other
            # without one (e.g. a cancel request right after a NAK was served)
            if i == 0 or well_behaved or quiet or rng.chance(0.8):
                st = s.sm("S")
            if st.ok and st.tid != "-":
                seq_s = int(st.tid.split(":")[1].split("/")[0])
            pd = s.drain("S") if rng.chance(0.95) or well_behaved or always_drain else []
            if any(pdu_kind(p) == "eof" for p in pd):
                sent_eof = True
            if seq_s is None:
                continue
            h = hdr(c, seq_s, direction="S")
            prog = st.prog if st.ok else 0
            r = 2.0 if quiet else rng.random()
            if r < 0.25 and c.eff_mode == "A":
                # NAK: mostly valid requests within progress, sometimes invalid
                reqs = []
                for _ in range(rng.randrange(0, 4)):
                    k = rng.random()
                    if k < 0.15:
                        reqs.append((0, 0))
                    elif k < 0.75 and prog > 0:
                        a = rng.randrange(0, prog + 1)
                        b = rng.randrange(a, prog + 1)
                        reqs.append((a, b))
                    elif not well_behaved:
                        reqs.append((rng.randrange(0, n + 4), rng.randrange(0, n + 6)))
                s.sm("S", nak(h, 0, n, reqs))
                s.drain("S")
            elif r < 0.35 and sent_eof:
                s.sm("S", ack(h, 4, 0, 1))
                s.drain("S")
            elif r < 0.45 and sent_eof:
                s.sm("S", fin(h, rng.choice((0, 0, 5, 15)), rng.choice((0, 1)), rng.choice((2, 0, 3)),
                              floc=rng.choice(("-", c.did))))
                s.drain("S")
            elif r < 0.55:
                s.tick(tick_choice(rng, rng.choice((ackms, c.chkms))))
            elif r < 0.60 and not well_behaved:
                w = c.sid.split("/")[1]
                sv = c.sid.split("/")[0]
                ok = rng.chance(0.7)
                s.do(f"cancel S {sv}/{w} {seq_s if ok else (seq_s + 1) % 2 ** c.seqbits}/{c.seqbits // 8}")
                s.drain("S")
            elif r < 0.63 and not well_behaved:
                s.do(c.put_line())          # premature put request
            elif r < 0.66 and not well_behaved:
                s.sm("S", ack(h, 5, 0, 1))
                s.drain("S")
        # finish: let timers run out
        for _ in range(rng.randrange(0, 8)):
            s.tick(rng.choice((ackms, c.chkms)))
            s.sm("S")
            s.drain("S")
        if rng.chance(0.3) and not well_behaved:
            s.do("reset S")
    return s


# ------------------------------------------------------------------ malformed stream
KINDS = ["md", "fd", "eof", "fin", "ack", "nak", "ka", "pr"]


def rand_pdu(rng: Rng, c: Cfg, seq: int) -> str:
    kind = rng.choice(KINDS)
    w = rng.choice((c.idw, c.idw, 1, 2, 4, 8))
    sv, dv = int(c.sid.split("/")[0]), int(c.did.split("/")[0])
    src = rng.choice((sv, sv, sv, dv, 99))
    dst = rng.choice((dv, dv, dv, sv, 98))
    if w == 1:
        src, dst = src % 256, dst % 256
    sq = rng.choice((seq, seq, seq, seq + 1, 0))
    seqw = rng.choice((c.seqbits // 8, c.seqbits // 8, 1, 2, 4))
    sq = sq % (2 ** (8 * seqw))
    large = rng.choice((0, 0, 0, 1))
    h = (f"dir={rng.choice('RRS')} mode={rng.choice((c.eff_mode, c.eff_mode, 'A', 'U'))} "
         f"crc={rng.choice((c.crc, c.crc, 1 - c.crc))} large={large} "
         f"src={src}/{w} dst={dst}/{w} seq={sq}/{seqw}")
    n = len(c.data)
    if kind == "md":
        return (f"md {h} closure={rng.randrange(2)} cks={rng.choice((0, 2, 3, 15, 1))} "
                f"size={rng.choice((n, 0, n + 3, 2 ** 33 if large else 2 ** 32 - 1))} sname={rng.choice((c.src_path, '-', '/q'))} "
                f"dname={rng.choice((c.dst_path, '-', '/out', '/nodir/x'))} "
                f"msgs={rng.choice(('-', 'x01', 'o5.2.9.2', 'r'))}")
    if kind == "fd":
        l = rng.randrange(0, 7)
        return fd(h, rng.choice((0, rng.randrange(0, n + 8), 300 if large else 3)),
                  rand_bytes(rng, l))
    if kind == "eof":
        return eof(h, rng.choice((0, 0, 15, 1, 4, 5, 6, 7, 10)), rand_bytes(rng, 4),
                   rng.choice((n, 0, n + 2, max(0, n - 1))), rng.choice(("-", c.sid, c.did)))
    if kind == "fin":
        return fin(h, rng.choice((0, 15, 5, 7, 1)), rng.randrange(2), rng.randrange(4),
                   rng.choice(("-", c.did, c.sid)))
    if kind == "ack":
        return ack(h, rng.choice((4, 5)), rng.choice((0, 15, 5)), rng.randrange(4))
    if kind == "nak":
        reqs = [(rng.randrange(0, n + 5), rng.randrange(0, n + 5)) for _ in range(rng.randrange(0, 4))]
        if rng.chance(0.3):
            reqs.insert(0, (0, 0))
        return nak(h, rng.randrange(0, 3), rng.randrange(0, n + 5), reqs)
    if kind == "ka":
        return f"ka {h} prog={rng.randrange(0, n + 3)}"
    return f"pr {h} resp={rng.randrange(2)}"


def malformed_session(rng: Rng, fs_kind: str = "mem") -> Session:
    """both handlers of a world are taken into arbitrary reachable steps by a (possibly faulty)
    end-to-end run that is interrupted at a random point; then arbitrary PDUs, API calls and time
    steps are thrown at them.  Default fault handlers (C10)."""
    c = rand_cfg(rng)
    c.faults_s = c.faults_d = ""
    plan = rand_plan(rng, rng.randrange(0, 3), 6, 3) if rng.chance(0.5) else {}
    l = Link(c, fs_kind, plan=plan, rng=rng,
             pacing=Pacing(idle_s=1, idle_d=1, skip_s=0.1, skip_d=0.1, hold=0.1))
    l.op(c.put_line())
    stop = rng.randrange(0, 14)
    for _ in range(stop):
        l.one_round()
    s = l.sess
    seq = c.seqnext
    for _ in range(rng.randrange(4, 30)):
        h = rng.choice("SD")
        r = rng.random()
        if r < 0.55:
            s.sm(h, rand_pdu(rng, c, seq))
        elif r < 0.65:
            s.sm(h)
        elif r < 0.85:
            s.do(f"get {h}")
        elif r < 0.90:
            s.tick(rng.choice((1, 499, 500, 1000, 2000, 4000)))
        elif r < 0.94:
            w = c.sid.split("/")[1]
            sv = c.sid.split("/")[0]
            s.do(f"cancel {h} {sv}/{w} {rng.choice((seq, (seq + 1) % 2 ** c.seqbits))}/{c.seqbits // 8}")
        elif r < 0.97:
            s.do(c.put_line())
        else:
            s.drain(h)
    return s


# ------------------------------------------------------------------ link sessions
def link_session(rng: Rng, k_faults: int = 0, fs_kind: str = "mem", pacing: bool = False,
                 cfg: Cfg | None = None, kinds=("drop", "dup", "delay", "flip"),
                 cancel: bool = False, rejects: bool = False) -> Link:
    c = cfg or rand_cfg(rng)
    n_sd = 2 + len(c.data) // max(1, c.seg_len) + 1
    plan = rand_plan(rng, k_faults, n_sd + 2, 4, kinds) if k_faults else {}
    p = Pacing()
    if pacing:
        p = Pacing(idle_s=rng.choice((1, 1, 2, 0)), idle_d=rng.choice((1, 1, 2, 0)),  # 0: only in unfair rounds
                   skip_s=rng.choice((0, 0.2, 0.5)), skip_d=rng.choice((0, 0.2, 0.5)),
                   hold=rng.choice((0, 0.3)), batch=rng.choice((99, 1, 2)))
        if p.idle_s == 0 and p.idle_d == 0:
            p.idle_s = 1
    l = Link(c, fs_kind, plan=plan, pacing=p, rng=rng)
    if cancel or rejects:
        at = rng.randrange(1, 12)
        who = rng.choice("SD")

        def hook(lk: Link, h: str, st: Status, state={"n": 0, "done": False}):
            state["n"] += 1
            if state["done"] or state["n"] < at * 3:
                return
            state["done"] = True
            lk.after_op = None
            if rejects and rng.chance(0.5):
                lk.op(f"reject D {rng.randrange(1, 3)} {rng.choice(('PermissionError', 'FileNotFoundError'))}")
                return
            if cancel:
                tid = lk.active[who]
                if tid is None:
                    return
                a, b = tid.split(":")
                lk.drain(who)
                lk.op(f"cancel {who} {a} {b}")
                lk.drain(who)
        l.after_op = hook
    return l
