"""Correspondence suite + independent oracle for the lost-segment tracker (C18, used by C06).

Ops: ("add", a, b) | ("rm", a, b) | ("co",) | ("reset",).  A sequence always starts from a
fresh tracker."""
from __future__ import annotations

import itertools

from common import Rng


def op_line(op) -> str:
    return "T " + " ".join(str(x) for x in op)


def impl_run(seq) -> list[str]:
    """execute on the real LostSegmentTracker, one canonical line per op (+ the leading `new`)"""
    from cfdppy.handler.dest import LostSegmentTracker

    t = LostSegmentTracker()

    def show():
        return "[" + ",".join(f"({s},{e})" for s, e in t.lost_segments.items()) + "]"

    out = ["ok " + show()]
    for op in seq:
        try:
            if op[0] == "add":
                t.add_lost_segment((op[1], op[2]))
                out.append("ok " + show())
            elif op[0] == "rm":
                r = t.remove_lost_segment((op[1], op[2]))
                out.append(f"ret={'true' if r else 'false'} " + show())
            elif op[0] == "co":
                t.coalesce_lost_segments()
                out.append("ok " + show())
            elif op[0] == "reset":
                t.reset()
                out.append("ok " + show())
            else:
                out.append("bad-op")
        except Exception as e:  # noqa: BLE001
            out.append(f"exc {type(e).__name__} " + show())
    return out


def model_lines(seq) -> list[str]:
    return ["T new"] + [op_line(op) for op in seq]


# ------------------------------------------------------------------ independent oracle (C18)

def oracle(seq) -> str | None:
    """The property statement evaluated on the implementation: returns a failure signature or None.
    Ops whose precondition (w.r.t. the *reference set and the listing reported so far*) does not
    hold end the evaluation of that sequence (nothing is claimed beyond that point), except the
    straddling removal, which must be refused and change nothing."""
    from cfdppy.handler.dest import LostSegmentTracker

    t = LostSegmentTracker()
    ref: set[int] = set()
    for op in seq:
        items = list(t.lost_segments.items())
        if op[0] == "add":
            a, b = op[1], op[2]
            if not (a < b) or any(x in ref for x in range(a, b)):
                return None
            t.add_lost_segment((a, b))
            ref |= set(range(a, b))
        elif op[0] == "rm":
            a, b = op[1], op[2]
            within = [(s, e) for s, e in items if s <= a and a < b <= e]
            disjoint = a <= b and not any(x in ref for x in range(a, b))
            straddle = [(s, e) for s, e in items if s <= a < e < b]
            if within:
                try:
                    r = t.remove_lost_segment((a, b))
                except Exception as e:  # noqa: BLE001
                    return f"remove-within-raised:{type(e).__name__}"
                if r is not True:
                    return "remove-within-reports-unchanged"
                ref -= set(range(a, b))
            elif disjoint:
                try:
                    r = t.remove_lost_segment((a, b))
                except Exception as e:  # noqa: BLE001
                    return f"remove-disjoint-raised:{type(e).__name__}"
                if r is not False:
                    return "remove-disjoint-reports-changed"
            elif straddle:
                try:
                    t.remove_lost_segment((a, b))
                    return "straddle-not-refused"
                except ValueError:
                    pass
                except Exception as e:  # noqa: BLE001
                    return f"straddle-raised:{type(e).__name__}"
                if list(t.lost_segments.items()) != items:
                    return "straddle-changed-state"
            else:
                return None
        elif op[0] == "co":
            t.coalesce_lost_segments()
            its = list(t.lost_segments.items())
            for (s1, e1), (s2, e2) in zip(its, its[1:]):
                if e1 >= s2:
                    return "coalesce-left-adjacent"
        elif op[0] == "reset":
            t.reset()
            ref = set()
        its = list(t.lost_segments.items())
        den = set()
        for s, e in its:
            if not s < e:
                return "empty-range-reported"
            den |= set(range(s, e))
        if den != ref:
            return "denotation-mismatch"
        if any(e1 > s2 for (s1, e1), (s2, e2) in zip(its, its[1:])) or \
                [s for s, _ in its] != sorted(s for s, _ in its):
            return "not-ascending"
        if t.num_lost_segments != len(its):
            return "num-lost-segments"
    return None


# ------------------------------------------------------------------ generators

def all_ops(n: int, malformed: bool):
    ops = []
    for a in range(n + 1):
        for b in range(n + 1):
            if malformed or a < b:
                ops.append(("add", a, b))
            if malformed or a <= b:
                ops.append(("rm", a, b))
    ops.append(("co",))
    return ops


def exhaustive(n: int, depth: int, malformed: bool):
    ops = all_ops(n, malformed)
    for d in range(1, depth + 1):
        yield from itertools.product(ops, repeat=d)


def random_valid(rng: Rng, n_max: int, length: int):
    """mostly precondition-respecting sequences, built against a reference listing"""
    from cfdppy.handler.dest import LostSegmentTracker

    t = LostSegmentTracker()
    seq = []
    for _ in range(length):
        items = list(t.lost_segments.items())
        covered = set()
        for s, e in items:
            covered |= set(range(s, e))
        k = rng.random()
        op = None
        if k < 0.40:
            for _try in range(8):
                a = rng.randrange(0, n_max)
                b = rng.randrange(a + 1, min(n_max, a + 8) + 1)
                if not any(x in covered for x in range(a, b)):
                    op = ("add", a, b)
                    break
        elif k < 0.75 and items:
            s, e = rng.choice(items)
            if s < e:
                a = rng.randrange(s, e)
                b = rng.randrange(a + 1, e + 1)
                op = ("rm", a, b)
        elif k < 0.82 and items:
            s, e = rng.choice(items)
            if s < e:
                a = rng.randrange(s, e)
                op = ("rm", a, e + rng.randrange(1, 4))  # straddle
        elif k < 0.88:
            a = rng.randrange(0, n_max)
            op = ("rm", a, a + rng.randrange(0, 3))
        elif k < 0.97:
            op = ("co",)
        else:
            op = ("reset",)
        if op is None:
            op = ("co",)
        seq.append(op)
        try:
            if op[0] == "add":
                t.add_lost_segment((op[1], op[2]))
            elif op[0] == "rm":
                t.remove_lost_segment((op[1], op[2]))
            elif op[0] == "co":
                t.coalesce_lost_segments()
            else:
                t.reset()
        except ValueError:
            pass
    return tuple(seq)


def random_malformed(rng: Rng, n_max: int, length: int):
    seq = []
    for _ in range(length):
        k = rng.random()
        a, b = rng.randrange(0, n_max), rng.randrange(0, n_max)
        if k < 0.45:
            seq.append(("add", a, b))
        elif k < 0.9:
            seq.append(("rm", a, b))
        else:
            seq.append(("co",))
    return tuple(seq)
