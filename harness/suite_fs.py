"""Correspondence suite for the native filestore (C17): operation sequences over a small universe of
file and directory names, executed on NativeFilestore in a sandbox directory and on the reference
model (Lean `Model/Fs.lean` via the driver).  The snapshot of the whole tree is compared after
every operation."""
from __future__ import annotations

import itertools
import os
import shutil
import tempfile
from pathlib import Path

import common  # noqa: F401
from common import Rng

NAMES = ["/a", "/b", "/d", "/d/x", "/d/y", "/e", "/e/z", "/a/n"]
FILES_ONLY = ["/a", "/b", "/d/x", "/d/y", "/e/z", "/a/n", "/d", "/e"]
OPS = ["create", "delete", "rename", "replace", "mkdir", "rmdir", "trunc", "write", "read", "size",
       "exists", "isdir"]


def snapshot(root: Path) -> str:
    items = []
    for dp, dns, fns in os.walk(root):
        rel = "/" + os.path.relpath(dp, root) if dp != str(root) else ""
        for d in dns:
            items.append(f"{rel}/{d}/")
        for f in fns:
            data = Path(dp, f).read_bytes()
            items.append(f"{rel}/{f}:{data.hex() or '-'}")
    return ",".join(sorted(items, key=lambda s: s.split(":")[0].rstrip("/"))) or "-"


def impl_run(seq) -> list[str]:
    from cfdppy.filestore import NativeFilestore
    fs = NativeFilestore()
    root = Path(tempfile.mkdtemp(prefix="cfdpverif-fs-"))
    try:
        out = ["ok | -"]

        def P(p: str) -> Path:
            return root / p.lstrip("/")
        for op in seq:
            try:
                k = op[0]
                if k == "create":
                    r = f"code={int(fs.create_file(P(op[1])))}"
                elif k == "delete":
                    r = f"code={int(fs.delete_file(P(op[1])))}"
                elif k == "rename":
                    r = f"code={int(fs.rename_file(P(op[1]), P(op[2])))}"
                elif k == "replace":
                    r = f"code={int(fs.replace_file(P(op[1]), P(op[2])))}"
                elif k == "mkdir":
                    r = f"code={int(fs.create_directory(P(op[1])))}"
                elif k == "rmdir":
                    r = f"code={int(fs.remove_directory(P(op[1]), op[2] == 1))}"
                elif k == "trunc":
                    fs.truncate_file(P(op[1]))
                    r = "ok"
                elif k == "write":
                    fs.write_data(P(op[1]), bytes.fromhex(op[2]) if op[2] != "-" else b"", op[3])
                    r = "ok"
                elif k == "read":
                    d = fs.read_data(P(op[1]), op[2], None if op[3] == "-" else op[3])
                    r = "data=" + (d.hex() or "-")
                elif k == "size":
                    r = f"size={fs.file_size(P(op[1]))}"
                elif k == "exists":
                    r = f"ret={'true' if fs.file_exists(P(op[1])) else 'false'}"
                elif k == "isdir":
                    r = f"ret={'true' if fs.is_directory(P(op[1])) else 'false'}"
                else:
                    r = "bad-op"
            except Exception as e:  # noqa: BLE001
                r = f"exc {type(e).__name__}"
            out.append(r + " | " + snapshot(root))
        return out
    finally:
        shutil.rmtree(root, ignore_errors=True)


def model_lines(seq) -> list[str]:
    return ["F new"] + ["F " + " ".join(str(x) for x in op) for op in seq]


def rand_op(rng: Rng):
    k = rng.choice(OPS + ["create", "write", "mkdir", "write"])
    p = rng.choice(NAMES)
    if k in ("rename", "replace"):
        return (k, p, rng.choice(NAMES))
    if k == "rmdir":
        return (k, p, rng.randrange(2))
    if k == "write":
        n = rng.randrange(0, 7)
        data = bytes(rng.randrange(256) for _ in range(n)).hex() or "-"
        return (k, p, data, rng.randrange(0, 13))
    if k == "read":
        return (k, p, rng.randrange(0, 13), rng.choice(("-", rng.randrange(0, 8))))
    if k == "size" and p in ("/d", "/e"):
        p = rng.choice(("/a", "/b", "/d/x"))       # size of a directory is host dependent
    return (k, p)


def random_seq(rng: Rng, n: int):
    return [rand_op(rng) for _ in range(n)]


def _w(rng: Rng, p: str):
    n = rng.randrange(1, 7)
    return ("write", p, bytes(rng.randrange(256) for _ in range(n)).hex(), rng.randrange(0, 6))


def history_seq(rng: Rng):
    """structured histories: a file is written, then the path is given to another file (rename away and
    create again, replaced, deleted and created again, its directory removed and made again), then written
    and read again — what a path names must be looked up afresh by every operation; random operations are
    sprinkled in between"""
    a, b = rng.sample(["/a", "/b", "/d/x", "/d/y"], 2)
    pre = [("mkdir", "/d")] if "/d" in a + b else []
    mid = rng.choice([
        [("rename", a, b), ("create", a)],
        [("create", b), _w(rng, b), ("replace", b, a), ("create", a)],
        [("create", b), _w(rng, b), ("replace", a, b)],
        [("delete", a), ("create", a)],
        [("rmdir", "/d", 1), ("mkdir", "/d"), ("create", a)] if a.startswith("/d/") else
        [("rename", a, b), ("create", a), ("trunc", a)],
        [("trunc", a)],
    ])
    seq = pre + [("create", a), _w(rng, a)] + mid + [_w(rng, a), ("read", a, 0, "-"), ("read", b, 0, "-"),
                                                     _w(rng, b), ("read", a, 0, "-"), ("size", a)]
    out = []
    for op in seq:
        out.append(op)
        if rng.chance(0.25):
            out.append(rand_op(rng))
    return out


def small_ops():
    """a small complete alphabet for exhaustive short sequences"""
    ops = []
    for p in ("/a", "/d", "/d/x"):
        ops += [("create", p), ("delete", p), ("mkdir", p), ("rmdir", p, 0), ("trunc", p),
                ("write", p, "0102", 1), ("read", p, 0, "-")]
    ops += [("rename", "/a", "/d/x"), ("rename", "/d/x", "/a"), ("replace", "/a", "/d/x"),
            ("rmdir", "/d", 1), ("rename", "/a", "/d")]
    return ops


def exhaustive(depth: int):
    ops = small_ops()
    for seq in itertools.product(ops, repeat=depth):
        yield list(seq)


# ------------------------------------------------------------------ independent oracle (C17)
SUCCESS = {"create": 0x00, "delete": 0x10, "rename": 0x20, "replace": 0x40, "mkdir": 0x50, "rmdir": 0x60}


def oracle(seq, out) -> str | None:
    """the clauses of the property that need no second model: a refused or failing operation leaves the
    tree unchanged; status codes belong to the operation's family; written data is read back; other
    bytes untouched"""
    prev = "-"
    for op, line in zip(seq, out[1:]):
        res, _, snap = line.partition(" | ")
        k = op[0]
        changed = snap != prev
        if res.startswith("exc ") and changed:
            return f"failing-operation-changed-tree:{k}:{res.split()[1]}"
        if res.startswith("code="):
            code = int(res[5:])
            fam = SUCCESS[k] & 0xF0
            if code & 0xF0 != fam:
                return f"status-code-of-other-family:{k}:{hex(code)}"
            if code != SUCCESS[k] and changed:
                return f"refused-operation-changed-tree:{k}:{hex(code)}"
        if k in ("read", "size", "exists", "isdir") and changed:
            return f"query-changed-tree:{k}"
        if changed:
            # an operation changes only the paths it names (a recursive removal: those below it)
            from trace import parse_fs
            before, after = parse_fs(prev), parse_fs(snap)
            named = [x for x in op[1:] if isinstance(x, str) and x.startswith("/")]
            for q in set(before) | set(after):
                if before.get(q, "missing") != after.get(q, "missing"):
                    ok = q in named or (k == "rmdir" and op[2] == 1 and q.startswith(op[1] + "/"))
                    if not ok:
                        return f"operation-changed-unnamed-path:{k}"
        if k in ("rename", "replace") and res == f"code={SUCCESS[k]}":
            # a successful move: onto itself nothing changes; otherwise the target holds what the source
            # held and the source is gone (files)
            from trace import parse_fs
            before, after = parse_fs(prev), parse_fs(snap)
            # rename_file(old, new) moves old -> new; replace_file(replaced, source) moves source -> replaced
            a, b = (op[1], op[2]) if k == "rename" else (op[2], op[1])
            if a == b:
                if changed:
                    return f"{k}-onto-itself-changed-tree"
            elif isinstance(before.get(a), bytes):
                if after.get(b, "missing") != before[a] or a in after:
                    return f"{k}-did-not-move-the-content"
        if k == "write" and res == "ok" and op[2] == "-" and changed:
            # an empty write leaves every byte (and the length) of every file as it was
            return "empty-write-changed-tree"
        if k == "write" and res == "ok" and op[2] != "-":
            # read-back identity and frame, from the snapshots
            from trace import parse_fs
            before, after = parse_fs(prev), parse_fs(snap)
            old, new = before.get(op[1]), after.get(op[1])
            data, off = bytes.fromhex(op[2]), op[3]
            if new is None or new[off:off + len(data)] != data:
                return "write-not-read-back"
            if old is not None and (new[:min(off, len(old))] != old[:min(off, len(old))]
                                    or new[off + len(data):] != old[off + len(data):]):
                return "write-touched-other-bytes"
            if old is not None and off > len(old) and any(new[len(old):off]):
                return "gap-not-zero-filled"
            for p, v in after.items():
                if p != op[1] and before.get(p, "missing") != v:
                    return "write-touched-other-path"
        prev = snap
    return None
