"""C04 — see DESIGN.md §6 and harness/handler_props.py (plan) / oracles.py (oracle)."""
import handler_props as hp
from prop_meta import META_ALL

META = META_ALL["C04"]


def run(ctx):
    return hp.check(ctx, "C04", META["level"], META["rule"], META["assumptions"])


def replay(ctx, path):
    return hp.replay(ctx, "C04", path)
