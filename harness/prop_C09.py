"""C09 — file checksums are correct for every content, length and chunking."""
from __future__ import annotations

import suite_checksum as sc
from common import script_hash
from framework import Ctx, decide, lean_stage

LEVEL = "proof"
RULE = ("(content, prefix length, chunk length, checksum type) tuples: all prefixes and chunk lengths for "
        "short strings, boundary and random ones for long strings, plus zero chunk length / unsupported "
        "type; distinct = distinct tuple; non-trivial = non-empty prefix and a CRC or modular type; EOF clause: "
        "sender sessions (handler_props.PLANS['C09']), every EOF PDU retrieved is compared with the reference "
        "checksum of the prefix of the source file it announces")


def explore(ctx: Ctx, big: bool):
    rng = ctx.rng
    impl = sc.Impl()
    try:
        scripts, impls = [], []
        for data in sc.gen_data(rng, big):
            p = impl.file_for(data)
            hx = data.hex() or "-"
            lines, outs = [], []
            for (t, size, seg) in sc.cases_for(rng, data, big):
                o = impl.calc(p, t, size, seg)
                ctx.evaluations += 1
                ctx.count(f"type:{t}")
                ctx.count("exc" if o.startswith("exc") else "ok")
                if size > len(data):
                    ctx.count("size-beyond-file")
                lines.append(f"K calc {t} {hx} {size} {seg}")
                outs.append(o)
                if size > 0 and data and t in (0, 2, 3):
                    ctx.distinct.add(script_hash([lines[-1]]))
                # oracle: the property's definition
                if seg >= 1:
                    ref = sc.reference(t, data[:size])
                    if ref is not None and o != "ok " + ref.hex():
                        ctx.fail(f"calc-mismatch:type{t}", {
                            "data_hex": hx, "type": t, "size": size, "seg": seg,
                            "expected": ref.hex(), "observed": o})
                    if ref is not None:
                        # verify_checksum true exactly for the right value
                        v1 = impl.verify(p, ref, t, size, seg)
                        bad = bytes([ref[0] ^ 1]) + ref[1:]
                        v2 = impl.verify(p, bad, t, size, seg)
                        lines.append(f"K verify {ref.hex()} {t} {hx} {size} {seg}")
                        outs.append(v1)
                        lines.append(f"K verify {bad.hex()} {t} {hx} {size} {seg}")
                        outs.append(v2)
                        if v1 != "ok true" or v2 != "ok false":
                            ctx.fail(f"verify-mismatch:type{t}", {
                                "data_hex": hx, "type": t, "size": size, "seg": seg,
                                "verify_right": v1, "verify_wrong": v2})
            if len(data) <= 9:
                ctx.sample({"data_hex": hx, "first_ops": lines[:3], "first_outs": outs[:3]})
            scripts.append(lines)
            impls.append(outs)
        ctx.correspond("checksum", scripts, impls)
    finally:
        impl.close()


def search(ctx: Ctx):
    explore(ctx, True)
    if not ctx.thorough:
        import handler_props as hp
        hp.run_plan(ctx, "C09", 4)


def run(ctx: Ctx) -> int:
    lean = lean_stage(ctx.pid)
    explore(ctx, ctx.thorough)
    # the EOF checksum clause: every EOF the source emits (first, cancel, re-sent) carries the checksum of
    # the bytes sent — sender sessions against the source model + oracle o_C09_eof (handler_props.PLANS)
    import handler_props as hp
    hp.replay_regressions(ctx, "C09")
    hp.run_plan(ctx, "C09", hp.THOROUGH_SCALE if ctx.thorough else 1)
    return decide(ctx, lean, LEVEL, search=search, coverage_extra={"rule": RULE},
                  assumptions=["crcmod's table-driven CRC equals the bitwise model (validated, not proved)",
                               "file.read semantics: short reads at end of file"])


def replay(ctx: Ctx, path: str) -> int:
    import json
    obj = json.load(open(path))
    if "ops" in obj:                       # a sender session (EOF clause)
        import handler_props as hp
        return hp.replay(ctx, "C09", path)
    if "data_hex" not in obj:
        print(f"replay {path}: no input recorded ({obj.get('kind')}); theorem/correspondence problem: "
              f"{json.dumps(obj.get('lean_problems', []))[:500]}")
        return 1
    data = b"" if obj["data_hex"] == "-" else bytes.fromhex(obj["data_hex"])
    t, size, seg = int(obj["type"]), int(obj["size"]), int(obj["seg"])
    impl = sc.Impl()
    try:
        p = impl.file_for(data)
        out = impl.calc(p, t, size, seg)
        ref = sc.reference(t, data[:size])
        bad = ref is not None and out != "ok " + ref.hex()
        if ref is not None and not bad:
            wrong = bytes([ref[0] ^ 1]) + ref[1:]
            bad = impl.verify(p, ref, t, size, seg) != "ok true" or impl.verify(p, wrong, t, size, seg) != "ok false"
    finally:
        impl.close()
    if bad:
        print(f"VIOLATION property=C09 replay={path}")
        print("reproduced:", obj.get("signature"), out)
        return 1
    print("not reproduced on the current tree")
    return 0
