#!/bin/bash
# Build the framework offline from files on disk: Lean project (model, proofs, driver).
set -e
cd "$(dirname "$0")"
mkdir -p evidence replays
cd lean
lake build CfdpVerif driver
/venv/bin/python -m compileall -q ../harness >/dev/null 2>&1 || true
echo "setup ok"
