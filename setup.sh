#!/bin/bash
# Build the framework offline from files on disk: Lean project (model, proofs, driver).
set -e
cd "$(dirname "$0")"
mkdir -p evidence replays
# finite tables are regenerated from /repo's current code before anything is built
/venv/bin/python -c "import sys; sys.path.insert(0, 'harness'); import tables; tables.write_tables()" >/dev/null
cd lean
lake build CfdpVerif driver
/venv/bin/python -m compileall -q ../harness >/dev/null 2>&1 || true
echo "setup ok"
